package data_structures

import "time"

// C15 — FILETIME <-> Go time, against the same arithmetic without intermediate overflow:
// ticks = 100 ns units since 1601-01-01; Unix epoch = 116444736000000000 ticks = 11644473600 s.

const epochSeconds int64 = 11644473600

func floorDivMod(a, b int64) (int64, int64) {
	q, r := a/b, a%b
	if r < 0 {
		q--
		r += b
	}
	return q, r
}

// GetTime / GetUnixTimestamp for every non-negative 64-bit tick count (incl. the 'never' sentinel 0x7FFFFFFFFFFFFFFF).
func H_C15_filetime_gettime() {
	ticks := vI64("ticks")
	vAssume(ticks >= 0)
	ft := FILETIME{DwLowDateTime: uint32(ticks), DwHighDateTime: uint32(uint64(ticks) >> 32)}
	vCheck(ft.ToInt64() == ticks, "filetime/ToInt64")
	q, r := floorDivMod(ticks, 10000000) // seconds since 1601, sub-second ticks
	wantSec := q - epochSeconds
	wantNsec := r * 100
	t := ft.GetTime()
	vCheck(t.Unix() == wantSec, "filetime/GetTime/seconds-exact")
	vCheck(int64(t.Nanosecond()) == wantNsec, "filetime/GetTime/nanoseconds-exact")
	vCheck(ft.GetUnixTimestamp() == wantSec, "filetime/GetUnixTimestamp-exact")
	vCover("end")
}

// NewFILETIMEFromTime for every Go time in [1601, 30828] (the range FILETIME can express).
func H_C15_filetime_fromtime() {
	sec := vI64("sec")
	nsec := vI64("nsec")
	vAssume(sec >= -epochSeconds)      // 1601-01-01
	vAssume(sec <= 910692730085)       // 30828-09-14, the last instant a signed tick count can express
	vAssume(nsec >= 0 && nsec < 1000000000)
	t := time.Unix(sec, nsec)
	ft := NewFILETIMEFromTime(t)
	want := (sec+epochSeconds)*10000000 + nsec/100 // fits: < 2^63
	vCheck(ft.ToInt64() == want, "filetime/FromTime/ticks-exact")
	// inverse modulo the 100 ns granularity
	back := ft.GetTime()
	vCheck(back.Unix() == sec, "filetime/roundtrip/seconds")
	vCheck(int64(back.Nanosecond()) == nsec-nsec%100, "filetime/roundtrip/nanoseconds-truncated-to-100ns")
	vCover("end")
}
