package keycredentiallink

import (
	"github.com/TheManticoreProject/Manticore/windows/guid"
	"github.com/TheManticoreProject/Manticore/windows/keycredential/crypto"
	"github.com/TheManticoreProject/Manticore/windows/keycredential/key"
	"github.com/TheManticoreProject/Manticore/windows/keycredential/utils"
)

// C14 — msDS-KeyCredentialLink blobs: serialise -> parse restores every field, re-serialise is identical, the
// integrity hash covers exactly the bytes after the KeyHash entry.

func c14material() crypto.RSAKeyMaterial {
	return crypto.RSAKeyMaterial{KeySize: vU32("keysize"), Exponent: vU32("exponent"), Modulus: vBytes("modulus", vParam("mod")),
		Prime1: vBytes("p1", vParam("p1")), Prime2: vBytes("p2", vParam("p2"))}
}

func c14credential() *KeyCredential {
	versions := [3]uint32{key.KeyCredentialVersion_0, key.KeyCredentialVersion_1, key.KeyCredentialVersion_2}
	ver := key.KeyCredentialVersion{Value: versions[vParam("version")]}
	// identifier: lower-case hex for versions 0/1 (symbolic bytes), base64 for version 2 (fixed value)
	id := "AAECAwQFBgc="
	if vParam("version") < 2 {
		const digits = "0123456789abcdef"
		raw := vBytes("idbytes", 4)
		b := make([]byte, 0, 8)
		for _, x := range raw {
			b = append(b, digits[x>>4], digits[x&15])
		}
		id = string(b)
	}
	if vParam("noid") == 1 {
		id = "" // no key identifier: ToBytes omits the KeyID entry
	}
	dev := guid.GUID{A: vU32("devA"), B: vU16("devB"), C: vU16("devC"), D: vU16("devD"), E: uint64(vU16("devEhi"))<<32 | uint64(vU32("devElo"))}
	t1, t2 := vU64("lastlogon"), vU64("creation")
	vAssume(t1 != 0 && t1 <= 0x7FFFFFFFFFFFFFFF)
	vAssume(t2 != 0 && t2 <= 0x7FFFFFFFFFFFFFFF)
	kc := NewKeyCredential(ver, id, c14material(), dev, utils.NewDateTime(t1), utils.NewDateTime(t2))
	if vParam("source") == 1 {
		// a credential whose key came from Azure AD: the constructor always says AD, so the field is assigned and the hash
		// brought up to date, as a caller has to do
		kc.Source = key.KeySource_AzureAD
		kc.RawBytes, kc.KeyHash = nil, nil // drop the serialisation cached by the constructor: it describes the AD credential
		kc.KeyHash = kc.ComputeKeyHash()
	}
	return kc
}

func H_C14_roundtrip() {
	kc := c14credential()
	vCheck(kc.CheckIntegrity(), "kc/fresh-credential-passes-its-integrity-check")
	blob, err := kc.ToBytes()
	vCheck(err == nil, "kc/serialise-ok")
	if err != nil {
		return
	}
	var d KeyCredential
	err = d.FromBytes(blob)
	vCheck(err == nil, "kc/parse-ok")
	if err != nil {
		return
	}
	vCheck(d.Version.Value == kc.Version.Value, "kc/version")
	vCheck(vStrEq(d.Identifier, kc.Identifier), "kc/identifier")
	vCheck(vBytesEq(d.KeyHash, kc.KeyHash), "kc/keyhash")
	vCheck(d.RawKeyMaterial.KeySize == kc.RawKeyMaterial.KeySize, "kc/material/keysize")
	vCheck(d.RawKeyMaterial.Exponent == kc.RawKeyMaterial.Exponent, "kc/material/exponent")
	vCheck(vBytesEq(d.RawKeyMaterial.Modulus, kc.RawKeyMaterial.Modulus), "kc/material/modulus")
	vCheck(vBytesEq(d.RawKeyMaterial.Prime1, kc.RawKeyMaterial.Prime1), "kc/material/prime1")
	vCheck(vBytesEq(d.RawKeyMaterial.Prime2, kc.RawKeyMaterial.Prime2), "kc/material/prime2")
	vCheck(d.Usage.Value == kc.Usage.Value, "kc/usage")
	vCheck(d.Source == kc.Source, "kc/source")
	vCheck(d.DeviceId.Equal(&kc.DeviceId), "kc/device-id")
	vCheck(d.LastLogonTime.Ticks == kc.LastLogonTime.Ticks, "kc/last-logon-ticks")
	vCheck(d.CreationTime.Ticks == kc.CreationTime.Ticks, "kc/creation-ticks")
	vCheck(d.LastLogonTime.Time.Equal(kc.LastLogonTime.Time), "kc/last-logon-time")
	vCheck(d.CheckIntegrity(), "kc/parsed-credential-passes-its-integrity-check")
	again, err := d.ToBytes()
	vCheck(err == nil && vBytesEq(again, blob), "kc/re-serialise-identical")
	// the hash argument is exactly the byte range after the KeyHash entry
	off := 4
	found := false
	for off+3 <= len(blob) {
		l := int(blob[off]) | int(blob[off+1])<<8
		typ := blob[off+2]
		off += 3 + l
		if typ == key.KeyCredentialEntryType_KeyHash {
			found = true
			break
		}
	}
	vCheck(found && off <= len(blob), "kc/keyhash-entry-present")
	if found && off <= len(blob) {
		vCheck(vBytesEq(kc.KeyHash, utils.ComputeHash(blob[off:])), "kc/hash-covers-exactly-the-bytes-after-the-keyhash-entry")
		vCheck(len(kc.KeyHash) == 32, "kc/hash-is-32-bytes")
	}
	vCover("end")
}

// altering the stored hash makes the integrity check fail (altering covered bytes changes the hash argument;
// detection then rests on SHA-256 collision resistance, which is assumed)
func H_C14_tamper_hash() {
	kc := c14credential()
	i := vParam("byte")
	bit := vU8("bit") & 7
	kc.KeyHash = append([]byte{}, kc.KeyHash...)
	if i < len(kc.KeyHash) {
		kc.KeyHash[i] ^= 1 << bit
		vCheck(!kc.CheckIntegrity(), "kc/tampered-stored-hash-detected")
	}
	vCover("end")
}

func H_C14_material() {
	m := c14material()
	raw := m.ToBytes()
	// a reused receiver that already holds a (longer) key
	d := crypto.RSAKeyMaterial{KeySize: vU32("prev.keysize"), Exponent: vU32("prev.exponent"), Modulus: vBytes("prev.modulus", 12), Prime1: vBytes("prev.p1", 3), Prime2: vBytes("prev.p2", 3)}
	err := d.FromBytes(raw)
	vCheck(err == nil, "material/parse-ok")
	vCheck(d.KeySize == m.KeySize && d.Exponent == m.Exponent, "material/keysize-exponent")
	vCheck(vBytesEq(d.Modulus, m.Modulus) && vBytesEq(d.Prime1, m.Prime1) && vBytesEq(d.Prime2, m.Prime2), "material/modulus-primes")
	vCheck(vBytesEq(d.ToBytes(), raw), "material/re-serialise-identical")
	vCheck(len(raw) >= 4 && raw[0] == 'R' && raw[1] == 'S' && raw[2] == 'A' && raw[3] == '1', "material/blob-type-RSA1")
	vCover("end")
}

// DN-with-binary string form: B:<hex length>:<hex>:<DN>, for every DN including ones containing ':'
func H_C14_dn_with_binary() {
	bin := vBytes("bin", vParam("blen"))
	dn := vString("dn", vParam("dlen"))
	d := &DNWithBinary{DistinguishedName: dn, BinaryData: bin}
	s := d.ToString()
	var p DNWithBinary
	err := p.Parse([]byte(s))
	vCheck(err == nil, "dn/parse-of-own-output-ok")
	if err == nil {
		vCheck(vStrEq(p.DistinguishedName, dn), "dn/distinguished-name")
		vCheck(vBytesEq(p.BinaryData, bin), "dn/binary-data")
		vCheck(vStrEq(p.ToString(), s), "dn/re-serialise-identical")
	}
	vCover("end")
}

// Distinguished names with characters that mean something to a formatter or to the B:<n>:<hex>:<dn> syntax (concrete
// samples; the blob stays symbolic)
var c14dns = []string{"CN=100% legit,OU=Users,DC=example,DC=com", "CN=svc%d,DC=example,DC=com", "CN=trailing%", "CN=%%,DC=x", "CN=a:b:c,DC=x", "CN=B:2:ff:x", "CN=Jos\u00e9 \\, Jr.,DC=x", ""}

func H_C14_dn_samples() {
	bin := vBytes("bin", 2)
	if vParam("cbin") == 1 {
		bin = []byte{0xab, 0x25} // everything concrete: decided even where an implementation builds its format string from the data
	}
	dn := c14dns[vParam("dn")]
	d := &DNWithBinary{DistinguishedName: dn, BinaryData: bin}
	for _, s := range []string{d.ToString(), d.String()} {
		var p DNWithBinary
		err := p.Parse([]byte(s))
		vCheck(err == nil, "dn-samples/parse-of-own-output-ok")
		if err == nil {
			vCheck(vStrEq(p.DistinguishedName, dn), "dn-samples/distinguished-name")
			vCheck(vBytesEq(p.BinaryData, bin), "dn-samples/binary-data")
		}
	}
	vCover("end")
}

// The key identifier is the SHA-256 of the key material, in lower-case hex for versions 0/1 and in padded standard base64
// for version 2 (SHA-256 itself is uninterpreted: both sides call the same primitive); ConvertToBinaryIdentifier reads
// either form back to the 32 bytes. A blob handed over as a DN-with-binary parses like the blob itself.
func H_C14_key_identifier() {
	versions := [3]uint32{key.KeyCredentialVersion_0, key.KeyCredentialVersion_1, key.KeyCredentialVersion_2}
	ver := key.KeyCredentialVersion{Value: versions[vParam("version")]}
	m := vBytes("material", vParam("mlen"))
	h := utils.ComputeHash(m)
	vCheck(len(h) == 32, "keyid/hash-is-32-bytes")
	if len(h) != 32 {
		return
	}
	id := utils.ComputeKeyIdentifier(m, ver)
	var want []byte
	if vParam("version") < 2 {
		const digits = "0123456789abcdef"
		for _, b := range h {
			want = append(want, digits[b>>4], digits[b&15])
		}
	} else {
		const alpha = "ABCDEFGHIJKLMNOPQRSTUVWXYZabcdefghijklmnopqrstuvwxyz0123456789+/"
		for i := 0; i+3 <= 30; i += 3 {
			v := uint32(h[i])<<16 | uint32(h[i+1])<<8 | uint32(h[i+2])
			want = append(want, alpha[v>>18&63], alpha[v>>12&63], alpha[v>>6&63], alpha[v&63])
		}
		v := uint32(h[30])<<16 | uint32(h[31])<<8
		want = append(want, alpha[v>>18&63], alpha[v>>12&63], alpha[v>>6&63], '=')
	}
	vCheck(vStrEq(id, string(want)), "keyid/text-form-of-the-hash")
	back, err := utils.ConvertToBinaryIdentifier(id, ver)
	vCheck(err == nil && vBytesEq(back, h), "keyid/text-form-reads-back-to-the-hash")
	vCover("end")
}

func H_C14_parse_dn_with_binary() {
	kc := c14credential()
	blob, err := kc.ToBytes()
	vCheck(err == nil, "dnb/serialise-ok")
	if err != nil {
		return
	}
	d := DNWithBinary{DistinguishedName: "CN=owner,DC=example,DC=com", BinaryData: blob}
	var p DNWithBinary
	vCheck(p.Parse([]byte(d.ToString())) == nil, "dnb/text-parses")
	var a, b KeyCredential
	vCheck(a.ParseDNWithBinary(p) == nil && b.FromBytes(blob) == nil, "dnb/both-parse")
	vCheck(a.Version.Value == b.Version.Value && vStrEq(a.Identifier, b.Identifier) && vBytesEq(a.KeyHash, b.KeyHash), "dnb/same-version-identifier-hash")
	vCheck(a.LastLogonTime.Ticks == b.LastLogonTime.Ticks && a.CreationTime.Ticks == b.CreationTime.Ticks && a.Source == b.Source && a.Usage.Value == b.Usage.Value, "dnb/same-times-source-usage")
	vCheck(a.DeviceId.Equal(&b.DeviceId) && vBytesEq(a.RawKeyMaterial.Modulus, b.RawKeyMaterial.Modulus), "dnb/same-device-and-modulus")
	again, err := a.ToBytes()
	vCheck(err == nil && vBytesEq(again, blob), "dnb/re-serialise-identical")
	vCover("end")
}
