package key

func H_C19_custom_key_flags() {
	v := vU8("v")
	var kf CustomKeyInformationFlags
	kf.FromBytes(vU8("prev")) // a reused receiver: the decomposition describes the last word only
	// an earlier result is the caller's to edit; later decompositions do not see the edits
	var kf0 CustomKeyInformationFlags
	kf0.FromBytes(vU8("prev0"))
	for i := range kf0.Name {
		kf0.Name[i] = "edited"
	}
	if cap(kf0.Name) >= 2 {
		_ = append(kf0.Name[:0], "edited", "edited")
	}
	// a decomposition handed out earlier keeps describing the word it was made from when the receiver is used again
	pv := kf.Value
	first := kf.Name
	kf.FromBytes(v)
	vCheck(kf.Value == v, "keyflags/value-kept")
	for i := range first {
		want := "None"
		if pv&1 != 0 && i == 0 {
			want = "Attestation"
		} else if pv&2 != 0 {
			want = "MFA not used"
		}
		vCheck(first[i] == want, "keyflags/earlier-decomposition-unchanged-by-reuse-of-the-receiver")
	}
	var want []string
	if v&0x01 != 0 {
		want = append(want, "Attestation")
	}
	if v&0x02 != 0 {
		want = append(want, "MFA not used")
	}
	if len(want) == 0 {
		want = append(want, "None")
	}
	vCheck(len(kf.Name) == len(want), "keyflags/name-count")
	if len(kf.Name) == len(want) {
		for i := range want {
			vCheck(kf.Name[i] == want[i], "keyflags/names")
		}
	}
	vCover("end")
}
