package keycredentiallink

// C07 — totality on a reused receiver: a KeyCredential that has already decoded a valid blob is handed arbitrary bytes.
func H_C07_KeyCredential_FromBytes_reused() {
	kc := c14credential()
	blob, err := kc.ToBytes()
	if err != nil {
		return
	}
	var d KeyCredential
	if d.FromBytes(blob) != nil {
		return
	}
	d.FromBytes(vBytes("data", vParam("n")))
	vCover("end")
}
