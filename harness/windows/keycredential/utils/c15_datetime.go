package utils

import "github.com/TheManticoreProject/Manticore/windows/keycredential/key"

// C15 — key-credential DateTime: ticks since 1601 to Go time, exact for every non-zero tick count a signed FILETIME can hold.
func H_C15_datetime() {
	ticks := vU64("ticks")
	vAssume(ticks != 0) // zero means "now"; every other 64-bit count, including those with the top bit set, is a tick count
	dt := NewDateTime(ticks)
	vCheck(dt.ToTicks() == ticks, "datetime/ticks-kept")
	wantSec := int64(ticks/10000000) - 11644473600
	wantNsec := int64(ticks%10000000) * 100
	vCheck(dt.Time.Unix() == wantSec, "datetime/seconds-exact")
	vCheck(int64(dt.Time.Nanosecond()) == wantNsec, "datetime/nanoseconds-exact")
	vCover("end")
}

// ConvertFromBinaryTime: for every credential version (0, 0x100, 0x200 and an unknown one) and both key sources the eight
// little-endian bytes are the tick count, unmodified.
func H_C15_binary_time() {
	ticks := vU64("ticks")
	vAssume(ticks != 0)
	raw := []byte{byte(ticks), byte(ticks >> 8), byte(ticks >> 16), byte(ticks >> 24), byte(ticks >> 32), byte(ticks >> 40), byte(ticks >> 48), byte(ticks >> 56)}
	versions := [4]uint32{key.KeyCredentialVersion_0, key.KeyCredentialVersion_1, key.KeyCredentialVersion_2, 0x300}
	ver := key.KeyCredentialVersion{Value: versions[vParam("version")]}
	src := key.KeySource_AD
	if vParam("source") == 1 {
		src = key.KeySource_AzureAD
	}
	dt := ConvertFromBinaryTime(raw, src, ver)
	vCheck(dt.ToTicks() == ticks, "binary-time/ticks-are-the-eight-bytes")
	vCheck(dt.Time.Unix() == int64(ticks/10000000)-11644473600, "binary-time/seconds-exact")
	vCheck(vBytesEq(dt.ToBytes(), raw), "binary-time/DateTime.ToBytes-is-the-tick-count-little-endian")
	vCheck(dt.ToUniversalTime().Unix() == dt.Time.Unix() && dt.ToUniversalTime().Nanosecond() == dt.Time.Nanosecond(), "binary-time/ToUniversalTime-is-the-same-instant")
	vCover("end")
}

// ConvertToBinaryTime is the inverse of ConvertFromBinaryTime: the instant of a tick count converts back to that tick
// count. The tick count is given as seconds and a sub-second remainder (ticks = q * 10^7 + r), which keeps the solver's
// work linear.
func H_C15_binary_time_inverse() {
	q, r := vU64("q"), vU64("r")
	vAssume(q <= 1844674407370 && r < 10000000)
	vAssume(q < 1844674407370 || r <= 9551615) // q * 10^7 + r fits in 64 bits
	ticks := q*10000000 + r
	vAssume(ticks != 0)
	versions := [4]uint32{key.KeyCredentialVersion_0, key.KeyCredentialVersion_1, key.KeyCredentialVersion_2, 0x300}
	ver := key.KeyCredentialVersion{Value: versions[vParam("version")]}
	src := key.KeySource_AD
	if vParam("source") == 1 {
		src = key.KeySource_AzureAD
	}
	dt := NewDateTime(ticks)
	back := ConvertToBinaryTime(dt.Time, src, ver)
	vCheck(len(back) == 8, "binary-time/to-binary-is-eight-bytes")
	if len(back) == 8 {
		got := uint64(back[0]) | uint64(back[1])<<8 | uint64(back[2])<<16 | uint64(back[3])<<24 | uint64(back[4])<<32 | uint64(back[5])<<40 | uint64(back[6])<<48 | uint64(back[7])<<56
		vCheck(got == ticks, "binary-time/to-binary-is-the-inverse-of-from-binary")
	}
	vCover("end")
}
