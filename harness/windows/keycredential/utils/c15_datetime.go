package utils

// C15 — key-credential DateTime: ticks since 1601 to Go time, exact for every non-zero tick count a signed FILETIME can hold.
func H_C15_datetime() {
	ticks := vU64("ticks")
	vAssume(ticks != 0) // zero means "now"
	vAssume(ticks <= 0x7FFFFFFFFFFFFFFF)
	dt := NewDateTime(ticks)
	vCheck(dt.ToTicks() == ticks, "datetime/ticks-kept")
	wantSec := int64(ticks/10000000) - 11644473600
	wantNsec := int64(ticks%10000000) * 100
	vCheck(dt.Time.Unix() == wantSec, "datetime/seconds-exact")
	vCheck(int64(dt.Time.Nanosecond()) == wantNsec, "datetime/nanoseconds-exact")
	vCover("end")
}
