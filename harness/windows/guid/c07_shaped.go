package guid

// C07 — the five text parsers at the exact length of their format (the generated harnesses stop far below it):
// (a) a well-formed text with two symbolic bytes at a position moving through the string;
// (b) concrete texts of the exact byte length in which a rune whose lower-case form has a different UTF-8 length
//     (U+212A KELVIN SIGN 3 -> 1 byte, U+0130 2 -> 1, U+2126 OHM SIGN 3 -> 2) stands at the start or the end — the executor
//     models case mapping of symbolic text for ASCII only, so these are concrete.
var c07guidTemplates = [5]string{
	"0123456789abcdef0123456789abcdef",
	"01234567-89ab-cdef-0123-456789abcdef",
	"{01234567-89ab-cdef-0123-456789abcdef}",
	"(01234567-89ab-cdef-0123-456789abcdef)",
	"{0x01234567,0x89ab,0xcdef,{0x01,0x23,0x45,0x67,0x89,0xab,0xcd,0xef}}",
}

func c07guidCall(f int, s string) {
	switch f {
	case 0:
		FromFormatN(s)
	case 1:
		FromFormatD(s)
	case 2:
		FromFormatB(s)
	case 3:
		FromFormatP(s)
	default:
		FromFormatX(s)
	}
	FromString(s)
}

func H_C07_guid_format_shaped() {
	f := vParam("fmt")
	t := []byte(c07guidTemplates[f])
	p := vParam("pos") * (len(t) - 2) / 7
	t[p], t[p+1] = vU8("x"), vU8("y")
	c07guidCall(f, string(t))
	vCover("end")
}

func H_C07_guid_format_casefold() {
	f := vParam("fmt")
	r := [3]string{"K", "İ", "Ω"}[vParam("rune")]
	t := c07guidTemplates[f]
	s := t[:len(t)-len(r)] + r
	if vParam("where") == 0 {
		s = r + t[len(r):]
	}
	c07guidCall(f, s)
	// and one byte longer / shorter than the format, so that the folded text has exactly the expected length
	c07guidCall(f, s+"0")
	c07guidCall(f, "00"+s)
	vCover("end")
}
