package guid

// C13 — GUID binary (MS-DTYP 2.3.4.2: Data1/2/3 little-endian, Data4 as is) and text forms N/D/B/P/X.

func symGUID() *GUID {
	// E is 48 bits wide: built from a 16- and a 32-bit symbol so that the width is structural
	return &GUID{A: vU32("A"), B: vU16("B"), C: vU16("C"), D: vU16("D"), E: uint64(vU16("Ehi"))<<32 | uint64(vU32("Elo"))}
}

func isHexDigit(c byte) bool {
	return vOr(vAnd(c >= '0', c <= '9'), vOr(vAnd(c >= 'a', c <= 'f'), vAnd(c >= 'A', c <= 'F')))
}

func lowerASCII(s string) string {
	b := []byte(s)
	for i := range b {
		b[i] = vIte8(vAnd(b[i] >= 'A', b[i] <= 'Z'), b[i]+32, b[i])
	}
	return string(b)
}

func H_C13_guid_binary() {
	raw := vBytes("raw", 16)
	g := &GUID{A: vU32("prev.A"), B: vU16("prev.B"), C: vU16("prev.C"), D: vU16("prev.D"), E: vU64("prev.E")} // a reused receiver
	g.FromRawBytes(raw)
	vCheck(vBytesEq(g.ToBytes(), raw), "guid/binary/format-parse-identity")
	// MS-DTYP layout, written independently
	vCheck(g.A == uint32(raw[0])|uint32(raw[1])<<8|uint32(raw[2])<<16|uint32(raw[3])<<24, "guid/binary/Data1-little-endian")
	vCheck(g.B == uint16(raw[4])|uint16(raw[5])<<8, "guid/binary/Data2-little-endian")
	vCheck(g.C == uint16(raw[6])|uint16(raw[7])<<8, "guid/binary/Data3-little-endian")
	vCheck(g.D == uint16(raw[8])<<8|uint16(raw[9]), "guid/binary/Data4-first-two-bytes-as-is")
	vCheck(g.E == uint64(raw[10])<<40|uint64(raw[11])<<32|uint64(raw[12])<<24|uint64(raw[13])<<16|uint64(raw[14])<<8|uint64(raw[15]), "guid/binary/Data4-last-six-bytes-as-is")
	f := symGUID()
	h := &GUID{}
	h.FromRawBytes(f.ToBytes())
	vCheck(h.Equal(f), "guid/binary/parse-format-identity")
	vCheck(len(f.ToBytes()) == 16, "guid/binary/size")
	vCover("end")
}

func format(g *GUID, f int) string {
	switch f {
	case 0:
		return g.ToFormatN()
	case 1:
		return g.ToFormatD()
	case 2:
		return g.ToFormatB()
	case 3:
		return g.ToFormatP()
	}
	return g.ToFormatX()
}

func parse(s string, f int) (*GUID, error) {
	switch f {
	case 0:
		return FromFormatN(s)
	case 1:
		return FromFormatD(s)
	case 2:
		return FromFormatB(s)
	case 3:
		return FromFormatP(s)
	}
	return FromFormatX(s)
}

var fmtNames = [5]string{"N", "D", "B", "P", "X"}

// fields -> text -> fields, for every field value within the widths
func H_C13_guid_text_fields() {
	f := vParam("format")
	g := symGUID()
	s := format(g, f)
	p, err := parse(s, f)
	vCheck(err == nil, "guid/text/"+fmtNames[f]+"/parse-of-own-output-ok")
	if err == nil {
		vCheck(p.A == g.A, "guid/text/"+fmtNames[f]+"/A")
		vCheck(p.B == g.B, "guid/text/"+fmtNames[f]+"/B")
		vCheck(p.C == g.C, "guid/text/"+fmtNames[f]+"/C")
		vCheck(p.D == g.D, "guid/text/"+fmtNames[f]+"/D")
		vCheck(p.E == g.E, "guid/text/"+fmtNames[f]+"/E")
	}
	q, err := FromString(s)
	vCheck(err == nil, "guid/text/"+fmtNames[f]+"/FromString-ok")
	if err == nil {
		vCheck(q.Equal(g), "guid/text/"+fmtNames[f]+"/FromString-fields")
	}
	vCover("end")
}

var templates = [5]string{
	"hhhhhhhhhhhhhhhhhhhhhhhhhhhhhhhh",
	"hhhhhhhh-hhhh-hhhh-hhhh-hhhhhhhhhhhh",
	"{hhhhhhhh-hhhh-hhhh-hhhh-hhhhhhhhhhhh}",
	"(hhhhhhhh-hhhh-hhhh-hhhh-hhhhhhhhhhhh)",
	"{0xhhhhhhhh,0xhhhh,0xhhhh,{0xhh,0xhh,0xhh,0xhh,0xhh,0xhh,0xhh,0xhh}}",
}

// text -> fields -> text, for every string of the format's shape over hex digits of both cases
func H_C13_guid_text_string() {
	f := vParam("format")
	t := templates[f]
	s := vString("s", len(t))
	for i := 0; i < len(t); i++ {
		if t[i] == 'h' {
			vAssume(isHexDigit(s[i]))
		} else {
			vAssume(s[i] == t[i])
		}
	}
	p, err := parse(s, f)
	vCheck(err == nil, "guid/string/"+fmtNames[f]+"/accepted")
	if err == nil {
		vCheck(vStrEq(format(p, f), lowerASCII(s)), "guid/string/"+fmtNames[f]+"/format-of-parse-is-lowercase-input")
	}
	vCover("end")
}
