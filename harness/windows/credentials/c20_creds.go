package credentials

// C20 — 'LM:NT' hash specifications are parsed identically regardless of surrounding white space or letter case,
// and a syntactically valid hash is never silently discarded.

func symHex(name string) string {
	s := vString(name, 32)
	for i := 0; i < 32; i++ {
		c := s[i]
		vAssume(vOr(vAnd(c >= '0', c <= '9'), vOr(vAnd(c >= 'a', c <= 'f'), vAnd(c >= 'A', c <= 'F'))))
	}
	return s
}

func symBlank(name string, n int) string {
	s := vString(name, n)
	for i := 0; i < n; i++ {
		c := s[i]
		vAssume(vOr(vOr(c == ' ', c == '\t'), vOr(c == '\n', c == '\r')))
	}
	return s
}

func H_C20_hashes() {
	kind := vParam("kind")
	var h, wantLM, wantNT string
	switch kind {
	case 0: // a single hash is the NT hash
		wantNT = symHex("nt")
		h = wantNT
	case 1:
		wantNT = symHex("nt")
		h = ":" + wantNT
	case 2:
		wantLM, wantNT = symHex("lm"), symHex("nt")
		h = wantLM + ":" + wantNT
	default:
		h = ""
	}
	lm0, nt0, err0 := ParseLMNTHashes(h)
	vCheck(err0 == nil, "hashes/plain/accepted")
	vCheck(vStrEq(lm0, wantLM), "hashes/plain/lm-kept")
	vCheck(vStrEq(nt0, wantNT), "hashes/plain/nt-kept")
	padded := symBlank("pre", vParam("pre")) + h + symBlank("post", vParam("post"))
	lm1, nt1, err1 := ParseLMNTHashes(padded)
	vCheck(err1 == nil, "hashes/padded/accepted")
	vCheck(vStrEq(lm1, wantLM), "hashes/padded/lm-kept")
	vCheck(vStrEq(nt1, wantNT), "hashes/padded/nt-kept")
	c, err := NewCredentials("d", "u", "p", padded)
	vCheck(err == nil && c != nil, "hashes/NewCredentials-accepted")
	if c != nil {
		vCheck(vStrEq(c.GetNTHash(), wantNT) && vStrEq(c.GetLMHash(), wantLM), "hashes/NewCredentials-hashes")
		vCheck(c.GetDomain() == "d" && c.GetUsername() == "u" && c.GetPassword() == "p", "hashes/NewCredentials-keeps-the-identity")
		vCheck(c.IsDomainIdentity() && !c.IsLocalIdentity(), "hashes/domain-identity")
		vCheck(c.CanPassTheHash() == (kind <= 2), "hashes/pass-the-hash-needs-an-NT-hash")
	}
	l, err := NewCredentials("", "", "p", h)
	if err == nil && l != nil {
		vCheck(l.IsLocalIdentity() && !l.IsDomainIdentity() && !l.CanPassTheHash(), "hashes/local-identity-without-user-cannot-pass-the-hash")
	}
	vCover("end")
}
