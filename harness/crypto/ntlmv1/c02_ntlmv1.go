package ntlmv1

import (
	"crypto/des"

	"github.com/TheManticoreProject/Manticore/crypto/lm"
)

// C02 — NTLMv1: NT and LM responses equal DESL(hash, challenge) (MS-NLMP 3.3.1), whichever entry point computes them.

// refSpread: 7 bytes -> 8 key bytes, 7 key bits each in the high positions (parity bit left 0), written with a bit loop.
func refSpread(h []byte) []byte {
	k := make([]byte, 8)
	for bit := 0; bit < 56; bit++ {
		b := (h[bit/8] >> uint(7-bit%8)) & 1
		k[bit/7] |= b << uint(7-bit%7)
	}
	return k
}

// refDESL(K16, D8) = DES(K[0..6], D) || DES(K[7..13], D) || DES(K[14..15] || 0^5, D)
func refDESL(k16 []byte, d []byte) []byte {
	padded := append(append([]byte{}, k16...), 0, 0, 0, 0, 0)
	var out []byte
	for i := 0; i < 3; i++ {
		c, _ := des.NewCipher(refSpread(padded[7*i : 7*i+7]))
		blk := make([]byte, 8)
		c.Encrypt(blk, d)
		out = append(out, blk...)
	}
	return out
}

func popcount8(b byte) byte {
	var n byte
	for i := uint(0); i < 8; i++ {
		n += (b >> i) & 1
	}
	return n
}

// parity expansion: every 7-byte key (all 2^56, symbolic)
func H_C02_parity_adjust() {
	key := vBytes("key", 7)
	out, err := ParityAdjust(key)
	vCheck(err == nil && len(out) == 8, "parity/size")
	if len(out) != 8 {
		return
	}
	want := refSpread(key)
	for i := 0; i < 8; i++ {
		vCheck(out[i]&0xFE == want[i], "parity/seven-key-bits-in-high-positions")
		vCheck(popcount8(out[i])&1 == 1, "parity/odd-parity")
	}
	vCover("end")
}

func H_C02_parity_bit() {
	n := vU8("n")
	p := ParityBit(int(n))
	vCheck(p == 0 || p == 1, "paritybit/range")
	vCheck((popcount8(n)+byte(p))&1 == 1, "paritybit/makes-total-odd")
	vCover("end")
}

func upperHex(b []byte) string {
	const digits = "0123456789ABCDEF"
	out := make([]byte, 0, 2*len(b))
	for _, x := range b {
		out = append(out, digits[x>>4], digits[x&15])
	}
	return string(out)
}

// NT response from an NT hash: every 16-byte hash and 8-byte challenge
func H_C02_v1_nthash() {
	// the hash arrives as the first 16 bytes of a larger buffer of the caller's (the result of a hex decode, a field of
	// a packet): the computation reads it, and only it
	backing := vBytes("nthash", 32)
	hash := backing[:16]
	given := append([]byte{}, backing...)
	ch := vBytes("challenge", 8)
	want := refDESL(append([]byte{}, hash...), ch)
	n, err := NewNTLMv1WithNTHash("D", "u", hash, ch)
	vCheck(err == nil, "v1/constructor-ok")
	r1, err := n.NTResponse()
	vCheck(err == nil && vBytesEq(r1, want), "v1/NTResponse-equals-DESL")
	r2, err := n.Hash()
	vCheck(err == nil && vBytesEq(r2, want), "v1/Hash-equals-DESL")
	vCheck(vStrEq(n.String(), upperHex(want)), "v1/String-upper-hex")
	// reading the response does not consume anything: a second read gives the same bytes, and the 16 bytes of the hash
	// the caller handed over are as they were
	r3, err := n.Hash()
	vCheck(err == nil && vBytesEq(r3, want), "v1/second-Hash-equals-the-first")
	r4, err := n.NTResponse()
	vCheck(err == nil && vBytesEq(r4, want), "v1/NTResponse-after-Hash-unchanged")
	vCheck(vBytesEq(backing[:16], given[:16]), "v1/caller's-hash-unchanged")
	vCover("end")
}

// from a password: NT response over MD4(UTF-16LE(pw)), LM response over the LM hash
func H_C02_v1_password() {
	n := vParam("n")
	pw := vString("pw", n)
	var u16 []byte
	for i := 0; i < n; i++ {
		vAssume(pw[i] < 0x80)
		u16 = append(u16, pw[i], 0)
	}
	ch := vBytes("challenge", 8)
	nt := refMD4(u16)
	v, err := NewNTLMv1WithPassword("D", "u", pw, ch)
	vCheck(err == nil, "v1pw/constructor-ok")
	r1, err := v.NTResponse()
	vCheck(err == nil && vBytesEq(r1, refDESL(nt[:], ch)), "v1pw/NTResponse-equals-DESL-of-NT-hash")
	r2, err := v.Hash()
	vCheck(err == nil && vBytesEq(r2, refDESL(nt[:], ch)), "v1pw/Hash-equals-DESL-of-NT-hash")
	l, err := v.LMResponse()
	vCheck(err == nil && vBytesEq(l, refDESL(lm.LMHash(pw), ch)), "v1pw/LMResponse-equals-DESL-of-LM-hash")
	_, err = NewNTLMv1WithPassword("D", "u", pw, vBytes("short", 7))
	vCheck(err != nil, "v1pw/short-challenge-rejected")
	vCover("end")
}
