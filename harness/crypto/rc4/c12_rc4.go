package rc4

// C12 — RC4 against the textbook algorithm.

// refStep is one PRGA step on an explicit state; returns the key-stream byte.
func refStep(s *[256]uint8, i, j *uint8) uint8 {
	*i = *i + 1
	*j = *j + s[*i]
	t := s[*i]
	s[*i] = s[*j]
	s[*j] = t
	return s[uint8(s[*i]+s[*j])]
}

// PRGA step from an arbitrary state: XORKeyStream over n bytes equals n textbook steps and leaves the textbook post-state.
// By induction this covers any data length and any way of splitting the data across calls.
func H_C12_rc4_prga() {
	n := vParam("n")
	c := &RC4{}
	copy(c.s[:], vBytes("S", 256))
	c.i, c.j = vU8("i"), vU8("j")
	rs, ri, rj := c.s, c.i, c.j
	// the source is cut from a larger buffer and the destination may be longer than the source (a reused output buffer):
	// exactly len(src) bytes are consumed and produced
	extra := vParam("extra")
	backing := vBytes("src", n+extra)
	src := backing[:n]
	dst := make([]byte, n+extra)
	for k := n; k < n+extra; k++ {
		dst[k] = 0xEE
	}
	c.XORKeyStream(dst, src)
	for k := 0; k < n; k++ {
		ks := refStep(&rs, &ri, &rj)
		vCheck(dst[k] == src[k]^ks, "rc4/prga/output")
	}
	for k := n; k < n+extra; k++ {
		vCheck(dst[k] == 0xEE, "rc4/prga/destination-beyond-len-src-untouched")
	}
	vCheck(c.i == ri, "rc4/prga/post-i")
	vCheck(c.j == rj, "rc4/prga/post-j")
	vCheck(c.s == rs, "rc4/prga/post-state")
	vCover("end")
}

// KSA for a key of k symbolic bytes against the textbook key schedule.
func H_C12_rc4_ksa() {
	k := vParam("k")
	key := vBytes("key", k)
	c, err := NewRC4WithKey(key)
	vCheck(err == nil, "rc4/ksa/accepted")
	var s [256]uint8
	for i := 0; i < 256; i++ {
		s[i] = uint8(i)
	}
	var j uint8
	for i := 0; i < 256; i++ {
		j += s[i] + key[i%k]
		t := s[i]
		s[i] = s[j]
		s[j] = t
	}
	vCheck(c.s == s, "rc4/ksa/state")
	vCheck(c.i == 0 && c.j == 0, "rc4/ksa/indices-zero")
	vCover("end")
}

func H_C12_rc4_keysize() {
	k := vParam("k")
	_, err := NewRC4WithKey(make([]byte, k))
	vCheck((err == nil) == (k >= 1 && k <= 256), "rc4/keysize-1-to-256")
	vCover("end")
}

// Overlap guard: identical slices and disjoint slices are accepted, partial overlap panics, short dst panics.
func H_C12_rc4_overlap() {
	c, _ := NewRC4WithKey([]byte{1, 2, 3})
	buf := vBytes("buf", 8)
	other := make([]byte, 8)
	vCheck(!vPanics(func() { c.XORKeyStream(buf[:4], buf[:4]) }), "rc4/overlap/identical-allowed")
	vCheck(!vPanics(func() { c.XORKeyStream(other[:4], buf[:4]) }), "rc4/overlap/disjoint-allowed")
	vCheck(!vPanics(func() { c.XORKeyStream(buf[4:8], buf[0:4]) }), "rc4/overlap/adjacent-allowed")
	vCheck(vPanics(func() { c.XORKeyStream(buf[1:5], buf[0:4]) }), "rc4/overlap/partial-rejected")
	vCheck(vPanics(func() { c.XORKeyStream(buf[0:4], buf[2:6]) }), "rc4/overlap/partial-rejected-2")
	// buffers that share exactly one byte at either end are overlapping too
	vCheck(vPanics(func() { c.XORKeyStream(buf[3:7], buf[0:4]) }), "rc4/overlap/one-shared-byte-rejected")
	vCheck(vPanics(func() { c.XORKeyStream(buf[0:4], buf[3:7]) }), "rc4/overlap/one-shared-byte-rejected-2")
	vCheck(vPanics(func() { c.XORKeyStream(buf[0:4], buf[3:4]) }), "rc4/overlap/one-byte-source-inside-dst-rejected")
	vCheck(vPanics(func() { c.XORKeyStream(other[:3], buf[:4]) }), "rc4/short-dst-rejected")
	vCover("end")
}

// Reset returns to the identity state with zero indices.
func H_C12_rc4_reset() {
	c := &RC4{}
	copy(c.s[:], vBytes("S", 256))
	c.i, c.j = vU8("i"), vU8("j")
	c.Reset()
	for k := 0; k < 256; k++ {
		vCheck(c.s[k] == uint8(k), "rc4/reset/identity-state")
	}
	vCheck(c.i == 0 && c.j == 0, "rc4/reset/indices")
	vCover("end")
}
