package dcc

import "unicode"

// C01 — MS-Cache v1: DCC = MD4(NT || UTF-16LE(lower(user))), raw, hex and hashcat line "hex:user".

func lowerASCII(s string) string {
	b := []byte(s)
	for i := range b {
		b[i] = vIte8(vAnd(b[i] >= 'A', b[i] <= 'Z'), b[i]+32, b[i])
	}
	return string(b)
}

func H_C01_dcc() {
	var ntHash [16]byte
	copy(ntHash[:], vBytes("nt", 16))
	n := vParam("n")
	user := vString("user", n)
	var u16 []byte
	for i := 0; i < n; i++ {
		vAssume(user[i] < 0x80)
		c := vIte8(vAnd(user[i] >= 'A', user[i] <= 'Z'), user[i]+32, user[i])
		u16 = append(u16, c, 0)
	}
	want := refMD4(append(append([]byte{}, ntHash[:]...), u16...))
	vCheck(DCCHashFromNTHash(ntHash, user) == want, "dcc/hash")
	const digits = "0123456789abcdef"
	hx := DCCHashFromNTHashToHex(ntHash, user)
	vCheck(len(hx) == 32, "dcc/hex-length")
	for i := 0; i < 16 && len(hx) == 32; i++ {
		vCheck(vAnd(hx[2*i] == digits[want[i]>>4], hx[2*i+1] == digits[want[i]&15]), "dcc/hex-lowercase-digits")
	}
	line := DCCHashFromNTHashToHashcatString(ntHash, user)
	vCheck(len(line) == 33+n, "dcc/hashcat-line-length")
	if len(line) == 33+n {
		vCheck(vStrEq(line[:32], hx), "dcc/hashcat-line-hash-field")
		vCheck(line[32] == ':', "dcc/hashcat-line-separator")
		// hashcat (mode 1100) uses the salt field as it stands: the line verifies only if it carries the lower-cased name
		// the hash field was computed with
		vCheck(vStrEq(line[33:], lowerASCII(user)), "dcc/hashcat-line-user-field")
	}
	vCover("end")
}

func H_C01_dcc_password() {
	pw, cps := symText("p", vParam("shape"))
	user := "Admin"
	nt := refMD4(refUTF16LE(cps))
	want := refMD4(append(append([]byte{}, nt[:]...), refUTF16LE([]rune("admin"))...))
	vCheck(DCCHashFromPassword(pw, user) == want, "dcc/from-password")
	const digits = "0123456789abcdef"
	hx := make([]byte, 0, 32)
	for _, b := range want {
		hx = append(hx, digits[b>>4], digits[b&15])
	}
	vCheck(vStrEq(DCCHashFromPasswordToHex(pw, user), string(hx)), "dcc/from-password-hex")
	vCheck(vStrEq(DCCHashFromPasswordToHashcatString(pw, user), string(hx)+":admin"), "dcc/from-password-hashcat-line")
	vCover("end")
}

// Non-ASCII user names (concrete samples: case mapping of symbolic text is modelled for ASCII only): the salt is
// UTF-16LE(lower(user)) with the Unicode simple lower-case mapping; the NT hash stays symbolic.
var c01names = []string{"Administratör", "JOSÉ", "Ζωή", "用户", "user😀", "ǅon"}

func c01lower16(s string) []byte {
	var cps []rune
	for _, r := range s {
		cps = append(cps, unicode.ToLower(r))
	}
	return refUTF16LE(cps)
}

func H_C01_dcc_unicode_names() {
	var ntHash [16]byte
	copy(ntHash[:], vBytes("nt", 16))
	user := c01names[vParam("name")]
	want := refMD4(append(append([]byte{}, ntHash[:]...), c01lower16(user)...))
	vCheck(DCCHashFromNTHash(ntHash, user) == want, "dcc/hash-for-a-non-ASCII-user")
	vCover("end")
}
