package gppp

import (
	"crypto/aes"
	"encoding/base64"
)

// C12 — Group Policy Preferences: AES-256-CBC, Microsoft's published key (MS-GPPREF 2.2.1.1.4), zero IV,
// UTF-16LE plaintext, PKCS#7 padding, base64. AES is an uninterpreted permutation pair in the symbolic run.

var publishedKey = []byte{
	0x4e, 0x99, 0x06, 0xe8, 0xfc, 0xb6, 0x6c, 0xc9, 0xfa, 0xf4, 0x93, 0x10, 0x62, 0x0f, 0xfe, 0xe8,
	0xf4, 0x96, 0xe8, 0x06, 0xcc, 0x05, 0x79, 0x90, 0x20, 0x9b, 0x09, 0xa4, 0x33, 0xb6, 0x6c, 0x1b,
}

// refEncrypt: SP 800-38A CBC written out by hand over the AES block function.
func refEncrypt(utf16le []byte) []byte {
	pad := 16 - len(utf16le)%16
	p := append([]byte{}, utf16le...)
	for i := 0; i < pad; i++ {
		p = append(p, byte(pad))
	}
	blk, _ := aes.NewCipher(publishedKey)
	prev := make([]byte, 16)
	var out []byte
	for i := 0; i < len(p); i += 16 {
		x := make([]byte, 16)
		for j := 0; j < 16; j++ {
			x[j] = p[i+j] ^ prev[j]
		}
		c := make([]byte, 16)
		blk.Encrypt(c, x)
		out = append(out, c...)
		prev = c
	}
	return out
}

// passwords of n ASCII characters (all 7-bit values symbolic)
func H_C12_gppp_ascii() {
	n := vParam("n")
	pw := vString("pw", n)
	u16 := make([]byte, 0, 2*n)
	for i := 0; i < n; i++ {
		vAssume(pw[i] < 0x80)
		u16 = append(u16, pw[i], 0)
	}
	enc, err := GPPPEncrypt(pw)
	vCheck(err == nil, "gppp/encrypt-ok")
	vCheck(vStrEq(enc, base64.StdEncoding.EncodeToString(refEncrypt(u16))), "gppp/ciphertext-is-base64-aes256cbc-published-key-zero-iv")
	dec, err := GPPPDecryptBase64(enc)
	vCheck(err == nil, "gppp/decrypt-ok")
	vCheck(vStrEq(dec, pw), "gppp/decrypt-of-encrypt-identity")
	// the XML attribute usually carries the value without base64 padding
	stripped := enc
	for len(stripped) > 0 && stripped[len(stripped)-1] == '=' {
		stripped = stripped[:len(stripped)-1]
	}
	dec2, err := GPPPDecryptBase64(stripped)
	vCheck(err == nil, "gppp/decrypt-unpadded-base64-ok")
	vCheck(vStrEq(dec2, pw), "gppp/decrypt-unpadded-base64-identity")
	vCover("end")
}

// one non-ASCII BMP character (2- or 3-byte UTF-8) among ASCII ones
func H_C12_gppp_bmp() {
	c := vU16("c")
	vAssume(c >= 0x80)
	vAssume(c < 0xD800 || c > 0xDFFF)
	pw := "a" + string(rune(c)) + "b"
	u16 := []byte{'a', 0, byte(c), byte(c >> 8), 'b', 0}
	enc, err := GPPPEncrypt(pw)
	vCheck(err == nil, "gppp/bmp/encrypt-ok")
	raw, derr := base64.StdEncoding.DecodeString(enc)
	vCheck(derr == nil, "gppp/bmp/output-is-base64")
	vCheck(vBytesEq(raw, refEncrypt(u16)), "gppp/bmp/ciphertext")
	dec, err := GPPPDecryptBase64(enc)
	vCheck(err == nil, "gppp/bmp/decrypt-ok")
	vCheck(vStrEq(dec, pw), "gppp/bmp/identity")
	vCover("end")
}

// characters outside the Basic Multilingual Plane (two UTF-16 code units each): concrete samples among ASCII, the tail
// symbolic
func H_C12_gppp_supplementary() {
	samples := [3]string{"P@ss\U0001F600word", "\U00010348\U0001F511x", "a\U0010FFFF"}
	units := [3][]uint16{
		{'P', '@', 's', 's', 0xD83D, 0xDE00, 'w', 'o', 'r', 'd'},
		{0xD800, 0xDF48, 0xD83D, 0xDD11, 'x'},
		{'a', 0xDBFF, 0xDFFF},
	}
	k := vParam("sample")
	t := vU8("tail")
	vAssume(t >= 0x20 && t < 0x7F)
	pw := samples[k] + string([]byte{t})
	var u16 []byte
	for _, u := range units[k] {
		u16 = append(u16, byte(u), byte(u>>8))
	}
	u16 = append(u16, t, 0)
	enc, err := GPPPEncrypt(pw)
	vCheck(err == nil, "gppp/supplementary/encrypt-ok")
	raw, derr := base64.StdEncoding.DecodeString(enc)
	vCheck(derr == nil, "gppp/supplementary/output-is-base64")
	vCheck(vBytesEq(raw, refEncrypt(u16)), "gppp/supplementary/ciphertext")
	dec, err := GPPPDecryptBase64(enc)
	vCheck(err == nil, "gppp/supplementary/decrypt-ok")
	vCheck(vStrEq(dec, pw), "gppp/supplementary/identity")
	vCover("end")
}

// Decrypt direction first: any ciphertext whose CBC plaintext is validly padded UTF-16 decrypts and re-encrypts to itself
func H_C12_gppp_key_and_iv() {
	vCheck(len(GPPP_AES_KEY) == 32, "gppp/key-length")
	for i := 0; i < 32 && i < len(GPPP_AES_KEY); i++ {
		vCheck(GPPP_AES_KEY[i] == publishedKey[i], "gppp/key-is-published-key")
	}
	vCover("end")
}
