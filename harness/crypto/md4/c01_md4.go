package md4

// C01 — MD4 against RFC 1320 (reference written in the RFC's own shape).

func refRotl(x, s uint32) uint32 { return (x << s) | (x >> (32 - s)) }
func refF(x, y, z uint32) uint32 { return (x & y) | (^x & z) }
func refG(x, y, z uint32) uint32 { return (x & y) | (x & z) | (y & z) }
func refH(x, y, z uint32) uint32 { return x ^ y ^ z }

// one step of each round, RFC 1320 section 3.4
func refFF(a, b, c, d, x, s uint32) uint32 { return refRotl(a+refF(b, c, d)+x, s) }
func refGG(a, b, c, d, x, s uint32) uint32 { return refRotl(a+refG(b, c, d)+x+0x5A827999, s) }
func refHH(a, b, c, d, x, s uint32) uint32 { return refRotl(a+refH(b, c, d)+x+0x6ED9EBA1, s) }

var refOrder = [3][16]int{
	{0, 1, 2, 3, 4, 5, 6, 7, 8, 9, 10, 11, 12, 13, 14, 15},
	{0, 4, 8, 12, 1, 5, 9, 13, 2, 6, 10, 14, 3, 7, 11, 15},
	{0, 8, 4, 12, 2, 10, 6, 14, 1, 9, 5, 13, 3, 11, 7, 15},
}
var refShift = [3][4]uint32{{3, 7, 11, 19}, {3, 5, 9, 13}, {3, 9, 11, 15}}

// refCompress is the RFC 1320 compression function: generic 3x16 step loop.
func refCompress(st [4]uint32, block []byte) [4]uint32 {
	var X [16]uint32
	for i := 0; i < 16; i++ {
		X[i] = uint32(block[4*i]) | uint32(block[4*i+1])<<8 | uint32(block[4*i+2])<<16 | uint32(block[4*i+3])<<24
	}
	r := st // r[0]=A r[1]=B r[2]=C r[3]=D
	for round := 0; round < 3; round++ {
		for i := 0; i < 16; i++ {
			// registers rotate ABCD -> DABC -> CDAB -> BCDA
			ia := (4 - i%4) % 4
			ib, ic, id := (ia+1)%4, (ia+2)%4, (ia+3)%4
			k := refOrder[round][i]
			s := refShift[round][i%4]
			switch round {
			case 0:
				r[ia] = refFF(r[ia], r[ib], r[ic], r[id], X[k], s)
			case 1:
				r[ia] = refGG(r[ia], r[ib], r[ic], r[id], X[k], s)
			default:
				r[ia] = refHH(r[ia], r[ib], r[ic], r[id], X[k], s)
			}
		}
	}
	return [4]uint32{st[0] + r[0], st[1] + r[1], st[2] + r[2], st[3] + r[3]}
}

// refAbsorb folds whole blocks of data into st and returns the new state and the unprocessed tail.
func refAbsorb(st [4]uint32, data []byte) ([4]uint32, []byte) {
	for len(data) >= 64 {
		st = refCompress(st, data[:64])
		data = data[64:]
	}
	return st, data
}

// refFinal pads (RFC 1320 3.1, 3.2) and serialises the digest; bits is the total message length in bits.
func refFinal(st [4]uint32, tail []byte, bits uint64) [16]byte {
	buf := append([]byte{}, tail...)
	buf = append(buf, 0x80)
	for len(buf)%64 != 56 {
		buf = append(buf, 0)
	}
	for i := 0; i < 8; i++ {
		buf = append(buf, byte(bits>>(8*uint(i))))
	}
	st, _ = refAbsorb(st, buf)
	var out [16]byte
	for i := 0; i < 4; i++ {
		out[4*i] = byte(st[i])
		out[4*i+1] = byte(st[i] >> 8)
		out[4*i+2] = byte(st[i] >> 16)
		out[4*i+3] = byte(st[i] >> 24)
	}
	return out
}

func refMD4(data []byte) [16]byte {
	st := [4]uint32{0x67452301, 0xefcdab89, 0x98badcfe, 0x10325476}
	st, tail := refAbsorb(st, data)
	return refFinal(st, tail, uint64(len(data))*8)
}

// ------------------------------------------------------------------ step lemmas

func H_C01_step() {
	a, b, c, d, x, s := vU32("a"), vU32("b"), vU32("c"), vU32("d"), vU32("x"), vU32("s")
	// rotation amounts of a 32-bit word: RFC 1320 uses 3..19; what an implementation does with amounts of 32 and more
	// (shift to zero, or rotate modulo 32) is not part of the algorithm
	vAssume(s < 32)
	vCheck(ff(a, b, c, d, x, s) == refFF(a, b, c, d, x, s), "md4/step/ff")
	vCheck(gg(a, b, c, d, x, s) == refGG(a, b, c, d, x, s), "md4/step/gg")
	vCheck(hh(a, b, c, d, x, s) == refHH(a, b, c, d, x, s), "md4/step/hh")
	vCover("end")
}

// ------------------------------------------------------------------ compression wiring (steps abstracted)

func H_C01_compress() {
	var st [4]uint32
	st[0], st[1], st[2], st[3] = vU32("s0"), vU32("s1"), vU32("s2"), vU32("s3")
	block := vBytes("block", 64)
	m := &MD4{state: st}
	m.processChunk(block)
	want := refCompress(st, block)
	vCheck(m.state[0] == want[0], "md4/compress/A")
	vCheck(m.state[1] == want[1], "md4/compress/B")
	vCheck(m.state[2] == want[2], "md4/compress/C")
	vCheck(m.state[3] == want[3], "md4/compress/D")
	vCover("end")
}

// ------------------------------------------------------------------ arbitrary pre-state

// arbitraryState builds an MD4 object in an arbitrary reachable state with b = param "b" buffered bytes.
func arbitraryState() (*MD4, [4]uint32, uint64, []byte) {
	b := vParam("b")
	var st [4]uint32
	st[0], st[1], st[2], st[3] = vU32("s0"), vU32("s1"), vU32("s2"), vU32("s3")
	t := vU64("t") // bytes absorbed so far
	vAssume(t < 1<<60)
	vAssume(t%64 == uint64(b))
	pending := vBytes("pending", b)
	m := &MD4{state: st, count: t * 8}
	junk := vBytes("junk", 64) // bytes beyond the buffered prefix are arbitrary left-overs
	copy(m.buffer[:], junk)
	copy(m.buffer[:], pending)
	return m, st, t, pending
}

// Write step: from any state, Write(p) leaves exactly the state the specification reaches after absorbing pending||p.
func H_C01_write() {
	n := vParam("n")
	m, st, t, pending := arbitraryState()
	p := vBytes("p", n)
	wrote, err := m.Write(p)
	vCheck(wrote == n && err == nil, "md4/write/result")
	data := append(append([]byte{}, pending...), p...)
	wantSt, tail := refAbsorb(st, data)
	for i := 0; i < 4; i++ {
		vCheck(m.state[i] == wantSt[i], "md4/write/state")
	}
	vCheck(m.count == (t+uint64(n))*8, "md4/write/count")
	vCheck(vBytesEq(m.buffer[:len(tail)], tail), "md4/write/buffered")
	vCover("end")
}

// Sum step: from any state the digest is the specification's, and reading it does not disturb the object.
func H_C01_sum() {
	m, st, t, pending := arbitraryState()
	before := *m
	got := m.Sum()
	want := refFinal(st, pending, t*8)
	vCheck(got == want, "md4/sum/digest")
	// read-does-not-disturb: chaining value, length and buffered bytes unchanged
	vCheck(m.state == before.state, "md4/sum/undisturbed-state")
	vCheck(m.count == before.count, "md4/sum/undisturbed-count")
	vCheck(vBytesEq(m.buffer[:len(pending)], before.buffer[:len(pending)]), "md4/sum/undisturbed-buffer")
	again := m.Sum()
	vCheck(again == want, "md4/sum/second-read")
	hx := m.HexSum()
	vCheck(len(hx) == 32, "md4/hexsum/len")
	const digits = "0123456789abcdef"
	for i := 0; i < 16; i++ {
		vCheck(vAnd(hx[2*i] == digits[want[i]>>4], hx[2*i+1] == digits[want[i]&15]), "md4/hexsum/digits")
	}
	vCover("end")
}

// End-to-end one-shot redundancy: md4.Sum(data) against the reference for every message of length n,
// and every two-way split through the streaming interface.
func H_C01_oneshot() {
	n := vParam("n")
	data := vBytes("data", n)
	want := refMD4(data)
	vCheck(Sum(data) == want, "md4/oneshot")
	cut := vParam("cut")
	if cut <= n {
		h := New()
		h.Write(data[:cut])
		h.Write(data[cut:])
		vCheck(h.Sum() == want, "md4/split")
	}
	vCover("end")
}
