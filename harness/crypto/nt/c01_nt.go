package nt

// C01 — NT hash = MD4(UTF-16LE(password)), raw and lower-case hex.
func H_C01_nt() {
	pw, cps := symText("p", vParam("shape"))
	want := refMD4(refUTF16LE(cps))
	got := NTHash(pw)
	vCheck(got == want, "nt/hash-is-md4-of-utf16le")
	hx := NTHashHex(pw)
	const digits = "0123456789abcdef"
	vCheck(len(hx) == 32, "nt/hex-length")
	for i := 0; i < 16 && len(hx) == 32; i++ {
		vCheck(vAnd(hx[2*i] == digits[want[i]>>4], hx[2*i+1] == digits[want[i]&15]), "nt/hex-lowercase-digits")
	}
	vCover("end")
}

// ASCII passwords of n symbolic characters (longer inputs, several MD4 blocks)
func H_C01_nt_ascii() {
	n := vParam("n")
	pw := vString("pw", n)
	var u16 []byte
	for i := 0; i < n; i++ {
		vAssume(pw[i] < 0x80)
		u16 = append(u16, pw[i], 0)
	}
	vCheck(NTHash(pw) == refMD4(u16), "nt/ascii/hash-is-md4-of-utf16le")
	vCover("end")
}
