package uuid_v8

// C13 — UUID version 8 (RFC 9562 custom layout): 120 data bits around the version nibble (octet 6, high) and the variant
// nibble (octet 8, high). The type keeps its own Data next to the embedded generic UUID; every output form describes the
// fields the value holds now.

func c13v8expected(data []byte, variant uint8) [16]byte {
	var e [16]byte
	copy(e[0:6], data[0:6])
	e[6] = 0x80 | data[6]>>4
	e[7] = data[6]<<4 | data[7]>>4
	e[8] = variant<<4 | data[7]&0x0F
	copy(e[9:16], data[8:15])
	return e
}

func H_C13_v8_fields() {
	data := vBytes("data", 15)
	variant := vU8("variant") & 0x0F
	var u UUIDv8
	// a reused value: it was parsed from other bytes before
	prev := vBytes("prev", 16)
	prev[6] = 0x80 | prev[6]&0x0F
	if vParam("reused") == 1 {
		_, perr := u.Unmarshal(prev)
		vCheck(perr == nil, "v8/earlier-parse-ok")
	}
	u.SetData(data)
	u.Variant = variant
	want := c13v8expected(data, variant)
	const digits = "0123456789abcdef"
	text := make([]byte, 0, 36)
	for i := 0; i < 16; i++ {
		if i == 4 || i == 6 || i == 8 || i == 10 {
			text = append(text, '-')
		}
		text = append(text, digits[want[i]>>4], digits[want[i]&15])
	}
	// the text form first (no Marshal in between): it already describes the data just set
	vCheck(vStrEq(u.String(), string(text)), "v8/text-describes-the-current-fields")
	raw, err := u.Marshal()
	vCheck(err == nil && len(raw) == 16, "v8/marshal-ok")
	if err != nil || len(raw) != 16 {
		return
	}
	vCheck(vBytesEq(raw, want[:]), "v8/binary-layout")
	vCheck(vBytesEq(u.GetData(), data), "v8/GetData-returns-the-data")
	var d UUIDv8
	if vParam("reused") == 1 {
		_, _ = d.Unmarshal(prev)
	}
	err = d.FromString(string(text))
	vCheck(err == nil, "v8/parse-of-own-text-ok")
	if err == nil {
		vCheck(d.Data == u.Data && d.Variant == variant && d.Version == 8, "v8/format-then-parse-returns-the-fields")
		vCheck(vStrEq(d.String(), string(text)), "v8/parse-then-format-reproduces-the-text")
	}
	var b UUIDv8
	n, err := b.Unmarshal(raw)
	vCheck(err == nil && n == 16 && b.Data == u.Data && b.Variant == variant, "v8/binary-roundtrip")
	vCover("end")
}

// Text in either letter case parses to the same value; a version nibble other than 8 is refused.
func H_C13_v8_text() {
	const t = "hhhhhhhh-hhhh-8hhh-hhhh-hhhhhhhhhhhh"
	s := vString("s", len(t))
	lower := make([]byte, len(t))
	for i := 0; i < len(t); i++ {
		switch t[i] {
		case 'h':
			vAssume(vOr(vAnd(s[i] >= '0', s[i] <= '9'), vOr(vAnd(s[i] >= 'a', s[i] <= 'f'), vAnd(s[i] >= 'A', s[i] <= 'F'))))
		default:
			vAssume(s[i] == t[i])
		}
		lower[i] = vIte8(vAnd(s[i] >= 'A', s[i] <= 'Z'), s[i]+32, s[i])
	}
	var u UUIDv8
	err := u.FromString(s)
	vCheck(err == nil, "v8/text/accepted")
	if err == nil {
		vCheck(vStrEq(u.String(), string(lower)), "v8/text/format-of-parse-is-lowercase-input")
	}
	other := vBytes("other", 16)
	vAssume(other[6]>>4 != 8)
	var o UUIDv8
	_, err = o.Unmarshal(other)
	vCheck(err != nil, "v8/other-versions-refused")
	vCover("end")
}
