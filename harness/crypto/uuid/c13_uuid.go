package uuid

// C13 — generic UUID: 128-bit binary form and canonical text form.

func H_C13_uuid_binary() {
	raw := vBytes("raw", 16)
	// the receiver starts from an arbitrary earlier value (a reused object): the result may depend only on raw
	var u UUID
	u.Version, u.Variant = vU8("prev.version"), vU8("prev.variant")
	copy(u.Data[:], vBytes("prev.data", 15))
	n, err := u.Unmarshal(raw)
	vCheck(err == nil && n == 16, "uuid/binary/unmarshal-ok")
	out, err := u.Marshal()
	vCheck(err == nil, "uuid/binary/marshal-ok")
	vCheck(vBytesEq(out, raw), "uuid/binary/format-parse-identity")
	vCheck(u.Version == raw[6]>>4, "uuid/binary/version-is-high-nibble-of-octet-6")
	// fields within their widths
	var f UUID
	f.Version = vU8("version") & 0x0F
	f.Variant = vU8("variant") & 0x0F
	copy(f.Data[:], vBytes("data", 15))
	enc, _ := f.Marshal()
	var g UUID
	_, err = g.Unmarshal(enc)
	vCheck(err == nil, "uuid/binary/parse-format-ok")
	vCheck(g == f, "uuid/binary/parse-format-identity")
	vCover("end")
}

func isHexDigit(c byte) bool {
	return vOr(vAnd(c >= '0', c <= '9'), vOr(vAnd(c >= 'a', c <= 'f'), vAnd(c >= 'A', c <= 'F')))
}

func H_C13_uuid_text() {
	const t = "hhhhhhhh-hhhh-hhhh-hhhh-hhhhhhhhhhhh"
	s := vString("s", len(t))
	lower := make([]byte, len(t))
	for i := 0; i < len(t); i++ {
		if t[i] == 'h' {
			vAssume(isHexDigit(s[i]))
		} else {
			vAssume(s[i] == '-')
		}
		lower[i] = vIte8(vAnd(s[i] >= 'A', s[i] <= 'Z'), s[i]+32, s[i])
	}
	var u UUID
	u.Version, u.Variant = vU8("prev.version"), vU8("prev.variant")
	copy(u.Data[:], vBytes("prev.data", 15))
	err := u.FromString(s)
	vCheck(err == nil, "uuid/text/accepted")
	if err == nil {
		vCheck(vStrEq(u.String(), string(lower)), "uuid/text/format-of-parse-is-lowercase-input")
	}
	// fields -> text -> fields
	var f UUID
	f.Version = vU8("version") & 0x0F
	f.Variant = vU8("variant") & 0x0F
	copy(f.Data[:], vBytes("data", 15))
	var g UUID
	err = g.FromString(f.String())
	vCheck(err == nil, "uuid/text/parse-of-own-output-ok")
	vCheck(g == f, "uuid/text/parse-format-identity")
	vCover("end")
}
