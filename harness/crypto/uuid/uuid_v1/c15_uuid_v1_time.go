package uuid_v1

import "time"

// C15 — UUID v1 timestamps: 100 ns ticks since 1582-10-15 (Unix epoch = 122192928000000000 ticks = 12219292800 s).
func H_C15_v1_gettime() {
	ts := vU64("ts") & 0x0FFFFFFFFFFFFFFF // the 60-bit field
	u := UUIDv1{Time: ts}
	t := u.GetTime()
	rel := int64(ts) - 122192928000000000 // ticks relative to 1970 (no wrap: ts < 2^60)
	q, r := rel/10000000, rel%10000000
	if r < 0 {
		q--
		r += 10000000
	}
	wantSec, wantNsec := q, r*100
	vCheck(t.Unix() == wantSec, "v1/GetTime/seconds-exact")
	vCheck(int64(t.Nanosecond()) == wantNsec, "v1/GetTime/nanoseconds-exact")
	vCover("end")
}

func H_C15_v1_settime() {
	sec := vI64("sec")
	nsec := vI64("nsec")
	vAssume(sec >= -12219292800)                 // 1582-10-15
	vAssume(sec <= 103072857660)                 // 5236-03-31: the last instant the 60-bit field can express
	vAssume(nsec >= 0 && nsec < 1000000000)
	var u UUIDv1
	u.SetTime(time.Unix(sec, nsec))
	want := uint64(sec+12219292800)*10000000 + uint64(nsec/100)
	vCheck(u.Time == want, "v1/SetTime/ticks-exact")
	back := u.GetTime()
	vCheck(back.Unix() == sec, "v1/roundtrip/seconds")
	vCheck(int64(back.Nanosecond()) == nsec-nsec%100, "v1/roundtrip/nanoseconds-truncated")
	vCover("end")
}
