package uuid_v1

// C13 — UUID version 1 against the RFC 4122 4.1.2 field layout, read independently from the 16 octets.

func H_C13_v1_rfc_layout() {
	raw := vBytes("raw", 16)
	vAssume(raw[6]>>4 == 1)   // version 1
	vAssume(raw[8]>>6 == 0x2) // RFC 4122 variant (10x)
	var u UUIDv1 // a reused receiver: arbitrary earlier contents
	u.UUID.Version, u.UUID.Variant = vU8("prev.version"), vU8("prev.variant")
	copy(u.UUID.Data[:], vBytes("prev.data", 15))
	u.Time, u.ClockSeq = vU64("prev.time"), vU16("prev.clock")
	copy(u.NodeID[:], vBytes("prev.node", 6))
	n, err := u.Unmarshal(raw)
	vCheck(err == nil && n == 16, "v1/unmarshal-ok")
	timeLow := uint64(raw[0])<<24 | uint64(raw[1])<<16 | uint64(raw[2])<<8 | uint64(raw[3])
	timeMid := uint64(raw[4])<<8 | uint64(raw[5])
	timeHi := (uint64(raw[6])<<8 | uint64(raw[7])) & 0x0FFF
	vCheck(u.Time == timeHi<<48|timeMid<<32|timeLow, "v1/timestamp-60-bit")
	clockSeq := (uint16(raw[8])&0x3F)<<8 | uint16(raw[9])
	vCheck(u.GetClockSequence()&0x0FFF == clockSeq&0x0FFF, "v1/clock-sequence-low-12-bits")
	vCheck(vBytesEq(u.GetNodeID(), raw[10:16]), "v1/node")
	out, err := u.Marshal()
	vCheck(err == nil, "v1/marshal-ok")
	vCheck(vBytesEq(out, raw), "v1/format-parse-identity")
	// last, because it is a recorded finding: later checks would only be decided under its assumption
	vCheck(u.GetClockSequence() == clockSeq, "v1/clock-sequence-14-bit")
	vCover("end")
}

func H_C13_v1_fields() {
	var u UUIDv1
	u.Time = vU64("time") & 0x0FFFFFFFFFFFFFFF
	u.SetClockSequence(vU16("clock") & 0x0FFF) // the width the structure documents (12 bits besides the variant nibble)
	u.UUID.Variant = 0x8
	node := vBytes("node", 6)
	vCheck(u.SetNodeID(node) == nil, "v1/fields/set-node")
	enc, err := u.Marshal()
	vCheck(err == nil, "v1/fields/marshal-ok")
	var d UUIDv1
	_, err = d.Unmarshal(enc)
	vCheck(err == nil, "v1/fields/unmarshal-ok")
	vCheck(d.Time == u.Time, "v1/fields/time")
	vCheck(d.ClockSeq == u.ClockSeq, "v1/fields/clock")
	vCheck(d.NodeID == u.NodeID, "v1/fields/node")
	var t UUIDv1
	vCheck(t.FromString(u.String()) == nil, "v1/fields/text-ok")
	vCheck(t.Time == u.Time && t.ClockSeq == u.ClockSeq && t.NodeID == u.NodeID, "v1/fields/text-identity")
	vCheck(t.GetClockSequence() == u.ClockSeq && vBytesEq(t.GetNodeID(), node), "v1/fields/accessors")
	vCheck(u.SetNodeID(node[:5]) != nil, "v1/fields/SetNodeID-wants-6-octets")
	var b UUIDv1
	vCheck(b.FromBytes(enc) == nil && b.Time == u.Time && b.ClockSeq == u.ClockSeq && b.NodeID == u.NodeID, "v1/fields/FromBytes")
	vCheck(b.FromBytes(enc[:15]) != nil, "v1/fields/FromBytes-wants-16-octets")
	vCover("end")
}
