package uuid_v2

import "time"

// C13 / C15 — UUID version 2 (DCE security): time_low is replaced by the local domain number, clock_seq_low by the local
// domain; the timestamp keeps bits 32..59 of the 100 ns count since 1582-10-15.

func H_C13_v2_fields() {
	var u UUIDv2
	u.LocalDomainNumber = vU32("ldn")
	u.Time = vU64("time") & 0x0FFFFFFF00000000 // the bits a version-2 UUID carries
	u.Clock = vU8("clock") & 0x0F
	u.LocalDomain = vU8("ld")
	copy(u.NodeID[:], vBytes("node", 6))
	raw, err := u.Marshal()
	vCheck(err == nil && len(raw) == 16, "v2/marshal-ok")
	if err != nil || len(raw) != 16 {
		return
	}
	// DCE 1.1 / RFC 4122 field positions, read independently
	vCheck(uint32(raw[0])<<24|uint32(raw[1])<<16|uint32(raw[2])<<8|uint32(raw[3]) == u.LocalDomainNumber, "v2/local-id-in-octets-0-3")
	vCheck(uint64(raw[4])<<8|uint64(raw[5]) == (u.Time>>32)&0xFFFF, "v2/time-mid-in-octets-4-5")
	vCheck(raw[6]>>4 == 2, "v2/version-nibble")
	vCheck((uint64(raw[6])&0x0F)<<8|uint64(raw[7]) == (u.Time>>48)&0x0FFF, "v2/time-hi-in-octets-6-7")
	vCheck(vBytesEq(raw[10:16], u.NodeID[:]), "v2/node-in-octets-10-15")
	// parse into a reused receiver: the result depends on the bytes only
	var d UUIDv2
	d.LocalDomainNumber, d.Time, d.Clock, d.LocalDomain = vU32("prev.ldn"), vU64("prev.time"), vU8("prev.clock"), vU8("prev.ld")
	copy(d.NodeID[:], vBytes("prev.node", 6))
	n, err := d.Unmarshal(raw)
	vCheck(err == nil && n == 16, "v2/unmarshal-ok")
	if err == nil {
		vCheck(d.LocalDomainNumber == u.LocalDomainNumber, "v2/roundtrip/local-domain-number")
		vCheck(d.Time == u.Time, "v2/roundtrip/time")
		vCheck(d.Clock == u.Clock && d.LocalDomain == u.LocalDomain, "v2/roundtrip/clock-and-domain")
		vCheck(d.NodeID == u.NodeID, "v2/roundtrip/node")
		again, err := d.Marshal()
		vCheck(err == nil && vBytesEq(again, raw), "v2/format-parse-identity")
	}
	// text form: 8-4-4-4-12 lower-case hex of the same 16 octets; parsing it (either letter case) restores the fields
	const digits = "0123456789abcdef"
	text, upper := make([]byte, 0, 36), make([]byte, 0, 36)
	for i := 0; i < 16; i++ {
		if i == 4 || i == 6 || i == 8 || i == 10 {
			text, upper = append(text, '-'), append(upper, '-')
		}
		text = append(text, digits[raw[i]>>4], digits[raw[i]&15])
		upper = append(upper, "0123456789ABCDEF"[raw[i]>>4], "0123456789ABCDEF"[raw[i]&15])
	}
	vCheck(vStrEq(u.String(), string(text)), "v2/text-is-hex-of-the-binary-form")
	var t UUIDv2
	t.LocalDomainNumber, t.Time, t.Clock, t.LocalDomain = vU32("prev.ldn"), vU64("prev.time"), vU8("prev.clock"), vU8("prev.ld")
	vCheck(t.FromString(string(upper)) == nil, "v2/text-parses")
	vCheck(t.LocalDomainNumber == u.LocalDomainNumber && t.Time == u.Time && t.Clock == u.Clock && t.LocalDomain == u.LocalDomain && t.NodeID == u.NodeID, "v2/format-then-parse-returns-the-fields")
	vCheck(t.FromBytes(raw[:15]) != nil, "v2/FromBytes-wants-16-octets")
	// accessors read and write the fields they name
	var a UUIDv2
	a.SetLocalDomainNumber(u.LocalDomainNumber)
	a.SetClock(u.Clock)
	a.SetLocalDomain(u.LocalDomain)
	vCheck(a.SetNodeID(u.NodeID[:]) == nil && a.SetNodeID(raw[:5]) != nil, "v2/SetNodeID-wants-6-octets")
	a.Time = u.Time
	vCheck(a.GetLocalDomainNumber() == u.LocalDomainNumber && a.GetClock() == u.Clock && a.GetLocalDomain() == u.LocalDomain && vBytesEq(a.GetNodeID(), u.NodeID[:]), "v2/accessors")
	viaSetters, err := a.Marshal()
	vCheck(err == nil && vBytesEq(viaSetters, raw), "v2/fields-set-through-accessors-encode-the-same")
	vCover("end")
}

func H_C15_v2_gettime() {
	ts := vU64("ts") & 0x0FFFFFFFFFFFFFFF
	u := UUIDv2{Time: ts}
	t := u.GetTime()
	rel := int64(ts) - 122192928000000000
	q, r := rel/10000000, rel%10000000
	if r < 0 {
		q--
		r += 10000000
	}
	vCheck(t.Unix() == q, "v2/GetTime/seconds-exact")
	vCheck(int64(t.Nanosecond()) == r*100, "v2/GetTime/nanoseconds-exact")
	vCover("end")
}

func H_C15_v2_settime() {
	sec := vI64("sec")
	nsec := vI64("nsec")
	vAssume(sec >= -12219292800)
	vAssume(sec <= 103072857660)
	vAssume(nsec >= 0 && nsec < 1000000000)
	var u UUIDv2
	u.SetTime(time.Unix(sec, nsec))
	want := uint64(sec+12219292800)*10000000 + uint64(nsec/100)
	vCheck(u.Time == want, "v2/SetTime/ticks-exact")
	vCover("end")
}
