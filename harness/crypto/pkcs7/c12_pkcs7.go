package pkcs7

// C12 — PKCS#7 (RFC 5652 6.3).

func H_C12_pkcs7_roundtrip() {
	b := vU8("blocksize")
	vAssume(b >= 1)
	m := vBytes("m", vParam("len"))
	orig := append([]byte{}, m...)
	p, err := Pad(m, b)
	vCheck(err == nil, "pkcs7/pad-ok")
	vCheck(len(p)%int(b) == 0, "pkcs7/padded-length-multiple-of-block")
	vCheck(len(p) > len(orig) && len(p) <= len(orig)+int(b), "pkcs7/pad-adds-1-to-b-bytes")
	for i := len(orig); i < len(p); i++ {
		vCheck(int(p[i]) == len(p)-len(orig), "pkcs7/pad-bytes-equal-pad-length")
	}
	u, err := Unpad(p)
	vCheck(err == nil, "pkcs7/unpad-ok")
	vCheck(vBytesEq(u, orig), "pkcs7/unpad-of-pad-identity")
	vCover("end")
}

func H_C12_pkcs7_zero_blocksize() {
	_, err := Pad(vBytes("m", 3), 0)
	vCheck(err != nil, "pkcs7/blocksize-zero-rejected")
	vCover("end")
}

// Full equivalence on every buffer of length n over all byte values: Unpad succeeds iff the RFC 5652 predicate holds.
func H_C12_pkcs7_unpad_equiv() {
	n := vParam("len")
	buf := vBytes("buf", n)
	u, err := Unpad(buf)
	if n == 0 {
		vCheck(err != nil, "pkcs7/unpad/empty-rejected")
		vCover("end")
		return
	}
	last := buf[n-1]
	valid := vAnd(last >= 1, int(last) <= n)
	for i := 0; i < n; i++ {
		// the last `last` bytes all equal `last`
		inPad := i < int(last)
		valid = vAnd(valid, vOr(!inPad, buf[n-1-i] == last))
	}
	vCheck((err == nil) == valid, "pkcs7/unpad/accepts-exactly-valid-padding")
	if err == nil {
		vCheck(len(u) == n-int(last), "pkcs7/unpad/strips-pad-length")
		vCheck(vBytesEq(u, buf[:len(u)]), "pkcs7/unpad/returns-prefix")
	}
	vCover("end")
}
