package lm

import "crypto/des"

// C01 — LM hash (MS-NLMP 3.3.1 LMOWFv1) for 7-bit ASCII passwords: upper-case, NUL-pad / truncate to 14,
// two 7-byte halves as DES keys (56 key bits in order, parity bits free), DES-ECB of "KGS!@#$%".

// refKey spreads 7 bytes over 8 key bytes (7 bits each in the high positions), written independently with a bit loop.
func refKey(h []byte) []byte {
	k := make([]byte, 8)
	for bit := 0; bit < 56; bit++ {
		b := (h[bit/8] >> uint(7-bit%8)) & 1
		k[bit/7] |= b << uint(7-bit%7)
	}
	return k
}

func H_C01_lm() {
	n := vParam("n")
	pw := vString("pw", n)
	up := make([]byte, 14)
	for i := 0; i < n; i++ {
		vAssume(pw[i] < 0x80)
		if i < 14 {
			up[i] = vIte8(vAnd(pw[i] >= 'a', pw[i] <= 'z'), pw[i]-32, pw[i])
		}
	}
	var want []byte
	for half := 0; half < 2; half++ {
		c, _ := des.NewCipher(refKey(up[7*half : 7*half+7]))
		out := make([]byte, 8)
		c.Encrypt(out, []byte("KGS!@#$%"))
		want = append(want, out...)
	}
	got := LMHash(pw)
	vCheck(vBytesEq(got, want), "lm/hash-equals-lmowfv1")
	hx := LMHashToHex(pw)
	const digits = "0123456789abcdef"
	vCheck(len(hx) == 32, "lm/hex-length")
	for i := 0; i < 16 && len(hx) == 32; i++ {
		vCheck(vAnd(hx[2*i] == digits[want[i]>>4], hx[2*i+1] == digits[want[i]&15]), "lm/hex-lowercase-digits")
	}
	vCover("end")
}
