package ntlmv2

import (
	"crypto/hmac"
	"crypto/md5"
	"unicode"
)

// C02 — NTLMv2 (MS-NLMP 3.3.2): an independent verifier that knows the password accepts the response.

func hmacMD5(key []byte, parts ...[]byte) []byte {
	h := hmac.New(md5.New, key)
	for _, p := range parts {
		h.Write(p)
	}
	return h.Sum(nil)
}

func symASCII(tag string, n int) (string, []byte, []byte) {
	s := vString(tag, n)
	var asIs, upper []byte
	for i := 0; i < n; i++ {
		vAssume(s[i] < 0x80)
		asIs = append(asIs, s[i], 0)
		upper = append(upper, vIte8(vAnd(s[i] >= 'a', s[i] <= 'z'), s[i]-32, s[i]), 0)
	}
	return s, asIs, upper
}

func lowerHex(b []byte) string {
	const digits = "0123456789abcdef"
	out := make([]byte, 0, 2*len(b))
	for _, x := range b {
		out = append(out, digits[x>>4], digits[x&15])
	}
	return string(out)
}

func H_C02_v2() {
	user, _, userUp16 := symASCII("user", vParam("ulen"))
	domain, dom16, _ := symASCII("domain", vParam("dlen"))
	pw, pw16, _ := symASCII("pw", vParam("plen"))
	var server, client [8]byte
	copy(server[:], vBytes("server", 8))
	copy(client[:], vBytes("client", 8))
	n, err := NewNTLMv2(domain, user, pw, server, client)
	vCheck(err == nil, "v2/constructor-ok")
	resp, err := n.Hash()
	vCheck(err == nil, "v2/hash-ok")
	vCheck(len(resp) >= 16+28, "v2/response-has-proof-and-blob-header")
	if err != nil || len(resp) < 44 {
		return
	}
	// the independent verifier: NTOWFv2 = HMAC-MD5(NT(pw), UTF16LE(Upper(user) || domain-as-supplied))
	nt := refMD4(pw16)
	ntowf := hmacMD5(nt[:], userUp16, dom16)
	temp := resp[16:]
	vCheck(vBytesEq(resp[:16], hmacMD5(ntowf, server[:], temp)), "v2/NTProofStr-verifies-under-NTOWFv2")
	// blob well-formed up to the client challenge and the reserved word
	vCheck(temp[0] == 1 && temp[1] == 1, "v2/blob/resp-type")
	for i := 2; i < 8; i++ {
		vCheck(temp[i] == 0, "v2/blob/reserved-zero")
	}
	vCheck(vBytesEq(temp[16:24], client[:]), "v2/blob/client-challenge-at-offset-16")
	for i := 24; i < 28; i++ {
		vCheck(temp[i] == 0, "v2/blob/reserved3-zero")
	}
	// hashcat 5600: user::domain:server:NTProofStr:blob
	line, err := n.ToHashcatString()
	vCheck(err == nil, "v2/hashcat-ok")
	// the timestamp may differ between the two calls: recompute the expected line from its own blob
	want := user + "::" + domain + ":" + lowerHex(server[:]) + ":"
	vCheck(len(line) == len(want)+32+1+2*len(temp), "v2/hashcat-line-length")
	if len(line) == len(want)+32+1+2*len(temp) {
		vCheck(vStrEq(line[:len(want)], want), "v2/hashcat-user-domain-server-fields")
		vCheck(line[len(want)+32] == ':', "v2/hashcat-proof-field-is-32-hex-digits")
	}
	vCover("end")
}

// The hashcat line, re-parsed by the 5600 field rules, verifies: proof field = HMAC(NTOWFv2, server || blob field)
func H_C02_v2_hashcat_verifies() {
	user, _, userUp16 := symASCII("user", vParam("ulen"))
	domain, dom16, _ := symASCII("domain", vParam("dlen"))
	pw, pw16, _ := symASCII("pw", vParam("plen"))
	for i := 0; i < len(user); i++ {
		vAssume(user[i] != ':')
	}
	for i := 0; i < len(domain); i++ {
		vAssume(domain[i] != ':')
	}
	var server, client [8]byte
	copy(server[:], vBytes("server", 8))
	copy(client[:], vBytes("client", 8))
	n, _ := NewNTLMv2(domain, user, pw, server, client)
	line, err := n.ToHashcatString()
	vCheck(err == nil, "hashcat/ok")
	prefix := len(user) + 2 + len(domain) + 1 + 16 + 1
	vCheck(len(line) > prefix+33, "hashcat/has-proof-and-blob-fields")
	if len(line) <= prefix+33 {
		return
	}
	proofHex := line[prefix : prefix+32]
	vCheck(line[prefix+32] == ':', "hashcat/proof-field-32-digits")
	blobHex := line[prefix+33:]
	vCheck(len(blobHex)%2 == 0, "hashcat/blob-field-even")
	unhex := func(s string) []byte {
		out := make([]byte, len(s)/2)
		for i := range out {
			hi, lo := s[2*i], s[2*i+1]
			out[i] = vIte8(hi <= '9', hi-'0', hi-'a'+10)<<4 | vIte8(lo <= '9', lo-'0', lo-'a'+10)
		}
		return out
	}
	nt := refMD4(pw16)
	ntowf := hmacMD5(nt[:], userUp16, dom16)
	vCheck(vBytesEq(unhex(proofHex), hmacMD5(ntowf, server[:], unhex(blobHex))), "hashcat/line-verifies-against-the-password")
	vCover("end")
}

// Non-ASCII user names: UPPER(user) is the Unicode simple case mapping applied to the text, then UTF-16LE. The executor
// models case mapping for symbolic text only in the ASCII range, so here the user / domain names are concrete samples
// (Latin-1, Latin Extended, a digraph whose upper case is a different code point, CJK, a supplementary-plane character)
// while password and challenges stay symbolic.
var c02names = []string{"müller", "šimon", "ǆon", "愛子", "a𝒷c", "Ωmega"}

func H_C02_v2_unicode_names() {
	user := c02names[vParam("name")]
	domain := c02names[vParam("dom")]
	pw, pw16, _ := symASCII("pw", vParam("plen"))
	var server, client [8]byte
	copy(server[:], vBytes("server", 8))
	copy(client[:], vBytes("client", 8))
	n, err := NewNTLMv2(domain, user, pw, server, client)
	vCheck(err == nil, "v2u/constructor-ok")
	resp, err := n.Hash()
	vCheck(err == nil && len(resp) >= 44, "v2u/hash-ok")
	if err != nil || len(resp) < 44 {
		return
	}
	nt := refMD4(pw16)
	ntowf := hmacMD5(nt[:], refUTF16LE(refUpper(user)), refUTF16LE([]rune(domain)))
	vCheck(vBytesEq(resp[:16], hmacMD5(ntowf, server[:], resp[16:])), "v2u/NTProofStr-verifies-under-NTOWFv2-for-a-non-ASCII-user")
	vCover("end")
}

// refUpper: Unicode simple upper-case mapping, rune by rune.
func refUpper(s string) []rune {
	out := []rune{}
	for _, r := range s {
		out = append(out, unicode.ToUpper(r))
	}
	return out
}

// A reused object: credentials changed after construction (or an object built as a literal) — every Hash() answers for
// the credentials the object holds at that moment.
func H_C02_v2_reused_object() {
	user1, _, _ := symASCII("user1", 2)
	dom1, _, _ := symASCII("domain1", 2)
	pw1, _, _ := symASCII("pw1", 2)
	user, _, userUp16 := symASCII("user", vParam("ulen"))
	domain, dom16, _ := symASCII("domain", vParam("dlen"))
	pw, pw16, _ := symASCII("pw", vParam("plen"))
	var server, client [8]byte
	copy(server[:], vBytes("server", 8))
	copy(client[:], vBytes("client", 8))
	var n *NTLMv2
	if vParam("literal") == 1 {
		n = &NTLMv2{ServerChallenge: server, ClientChallenge: client}
	} else {
		var err error
		n, err = NewNTLMv2(dom1, user1, pw1, server, client)
		vCheck(err == nil, "v2r/constructor-ok")
		_, err = n.Hash()
		vCheck(err == nil, "v2r/first-hash-ok")
	}
	n.Domain, n.Username, n.Password = domain, user, pw
	resp, err := n.Hash()
	vCheck(err == nil && len(resp) >= 44, "v2r/hash-ok")
	if err != nil || len(resp) < 44 {
		return
	}
	nt := refMD4(pw16)
	ntowf := hmacMD5(nt[:], userUp16, dom16)
	vCheck(vBytesEq(resp[:16], hmacMD5(ntowf, server[:], resp[16:])), "v2r/NTProofStr-verifies-under-the-current-credentials")
	vCover("end")
}
