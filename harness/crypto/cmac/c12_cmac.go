package cmac

// C12 — CMAC against RFC 4493 / SP 800-38B over an arbitrary block function (uninterpreted in the symbolic run,
// a fixed deterministic function in the native replay).

type testBlock struct{ n int }

func (b *testBlock) BlockSize() int { return b.n }
func (b *testBlock) Encrypt(dst, src []byte) {
	// native stand-in: any deterministic function of the block will do for CMAC
	var acc byte = 0x5A
	tmp := make([]byte, b.n)
	for i := 0; i < b.n; i++ {
		acc = acc*31 + src[i] + byte(i)
		tmp[i] = acc ^ src[(i+1)%b.n]<<1
	}
	copy(dst, tmp)
}
func (b *testBlock) Decrypt(dst, src []byte) { panic("unused") }

func refShift(in []byte) ([]byte, byte) {
	out := make([]byte, len(in))
	var carry byte
	for i := len(in) - 1; i >= 0; i-- {
		out[i] = in[i]<<1 | carry
		carry = in[i] >> 7
	}
	return out, carry
}

// refCMAC: RFC 4493 sections 2.3 (subkeys) and 2.4 (MAC generation).
func refCMAC(blk *testBlock, msg []byte) []byte {
	n := blk.n
	rb := byte(0x87)
	if n == 8 {
		rb = 0x1B
	}
	L := make([]byte, n)
	blk.Encrypt(L, make([]byte, n))
	k1, msb := refShift(L)
	k1[n-1] = vIte8(msb != 0, k1[n-1]^rb, k1[n-1])
	k2, msb2 := refShift(k1)
	k2[n-1] = vIte8(msb2 != 0, k2[n-1]^rb, k2[n-1])
	nb := (len(msg) + n - 1) / n
	complete := nb > 0 && len(msg)%n == 0
	if nb == 0 {
		nb = 1
	}
	last := make([]byte, n)
	if complete {
		for i := 0; i < n; i++ {
			last[i] = msg[(nb-1)*n+i] ^ k1[i]
		}
	} else {
		rem := msg[(nb-1)*n:]
		for i := 0; i < n; i++ {
			var m byte
			if i < len(rem) {
				m = rem[i]
			} else if i == len(rem) {
				m = 0x80
			}
			last[i] = m ^ k2[i]
		}
	}
	x := make([]byte, n)
	for b := 0; b < nb-1; b++ {
		y := make([]byte, n)
		for i := 0; i < n; i++ {
			y[i] = x[i] ^ msg[b*n+i]
		}
		blk.Encrypt(x, y)
	}
	y := make([]byte, n)
	for i := 0; i < n; i++ {
		y[i] = x[i] ^ last[i]
	}
	t := make([]byte, n)
	blk.Encrypt(t, y)
	return t
}

func H_C12_cmac() {
	n := vParam("block")
	l := vParam("len")
	c1, c2 := vParam("cut1"), vParam("cut2")
	if c1 > l {
		c1 = l
	}
	if c2 > l {
		c2 = l
	}
	if c2 < c1 {
		c2 = c1
	}
	blk := &testBlock{n: n}
	msg := vBytes("msg", l)
	want := refCMAC(blk, msg)
	h := New(blk)
	vCheck(h.Size() == n, "cmac/size")
	h.Write(msg[:c1])
	early := h.Sum(nil) // a read between writes must not disturb the stream
	vCheck(vBytesEq(early, refCMAC(blk, msg[:c1])), "cmac/sum-of-prefix")
	h.Write(msg[c1:c2])
	h.Write(msg[c2:])
	got := h.Sum(nil)
	vCheck(vBytesEq(got, want), "cmac/equals-rfc4493")
	vCheck(vBytesEq(h.Sum(nil), want), "cmac/second-sum-equal")
	prefix := []byte{1, 2, 3}
	app := h.Sum(prefix)
	vCheck(len(app) == 3+n && vBytesEq(app[3:], want) && app[0] == 1 && app[2] == 3, "cmac/sum-appends")
	h.Reset()
	h.Write(msg)
	vCheck(vBytesEq(h.Sum(nil), want), "cmac/reset-then-reuse")
	vCover("end")
}
