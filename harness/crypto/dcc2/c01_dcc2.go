package dcc2

import (
	"crypto/sha1"
	"unicode"

	"golang.org/x/crypto/pbkdf2"
)

// C01 — MS-Cache v2: DCC2 = PBKDF2-HMAC-SHA1(P = DCC1, S = UTF-16LE(lower(user)), c = rounds, dkLen = 16),
// line "$DCC2$<rounds>#<user>#<hex>".

func refDecimal(v uint64) string {
	n := 1
	p := uint64(10)
	for n < 20 && v >= p {
		n++
		if n < 20 {
			p *= 10
		}
	}
	buf := make([]byte, n)
	d := uint64(1)
	for i := n - 1; i >= 0; i-- {
		buf[i] = byte('0' + (v/d)%10)
		if i > 0 {
			d *= 10
		}
	}
	return string(buf)
}

func H_C01_dcc2() {
	var ntHash [16]byte
	copy(ntHash[:], vBytes("nt", 16))
	n := vParam("n")
	user := vString("user", n)
	var u16 []byte
	for i := 0; i < n; i++ {
		vAssume(user[i] < 0x80)
		c := vIte8(vAnd(user[i] >= 'A', user[i] <= 'Z'), user[i]+32, user[i])
		u16 = append(u16, c, 0)
	}
	rounds := vInt("rounds")
	vAssume(rounds >= 1)
	vAssume(rounds <= 1<<vParam("roundbits"))
	dcc1 := refMD4(append(append([]byte{}, ntHash[:]...), u16...))
	key := pbkdf2.Key(dcc1[:], u16, rounds, 16, sha1.New)
	const digits = "0123456789abcdef"
	hx := make([]byte, 32)
	for i := 0; i < 16; i++ {
		hx[2*i], hx[2*i+1] = digits[key[i]>>4], digits[key[i]&15]
	}
	want := "$DCC2$" + refDecimal(uint64(rounds)) + "#" + user + "#" + string(hx)
	vCheck(vStrEq(DCC2HashWithNTHash(user, ntHash, rounds), want), "dcc2/hashcat-line")
	vCover("end")
}

func H_C01_dcc2_password() {
	pw, cps := symText("p", vParam("shape"))
	nt := refMD4(refUTF16LE(cps))
	u16 := refUTF16LE([]rune("admin"))
	dcc1 := refMD4(append(append([]byte{}, nt[:]...), u16...))
	key := pbkdf2.Key(dcc1[:], u16, 10240, 16, sha1.New)
	const digits = "0123456789abcdef"
	hx := make([]byte, 32)
	for i := 0; i < 16; i++ {
		hx[2*i], hx[2*i+1] = digits[key[i]>>4], digits[key[i]&15]
	}
	vCheck(vStrEq(DCC2Hash("Admin", pw, 10240), "$DCC2$10240#Admin#"+string(hx)), "dcc2/from-password")
	vCheck(vStrEq(DCC2HashWithPassword("Admin", pw, 10240), "$DCC2$10240#Admin#"+string(hx)), "dcc2/with-password")
	vCover("end")
}

var c01names = []string{"Administratör", "JOSÉ", "Ζωή", "用户", "user😀", "ǅon"}

func c01lower16(s string) []byte {
	var cps []rune
	for _, r := range s {
		cps = append(cps, unicode.ToLower(r))
	}
	return refUTF16LE(cps)
}

// Non-ASCII user names (concrete samples), symbolic NT hash, fixed round counts.
func H_C01_dcc2_unicode_names() {
	var ntHash [16]byte
	copy(ntHash[:], vBytes("nt", 16))
	user := c01names[vParam("name")]
	rounds := vParam("rounds")
	u16 := c01lower16(user)
	dcc1 := refMD4(append(append([]byte{}, ntHash[:]...), u16...))
	key := pbkdf2.Key(dcc1[:], u16, rounds, 16, sha1.New)
	const digits = "0123456789abcdef"
	hx := make([]byte, 32)
	for i := 0; i < 16; i++ {
		hx[2*i], hx[2*i+1] = digits[key[i]>>4], digits[key[i]&15]
	}
	want := "$DCC2$" + refDecimal(uint64(rounds)) + "#" + user + "#" + string(hx)
	vCheck(vStrEq(DCC2HashWithNTHash(user, ntHash, rounds), want), "dcc2/hashcat-line-for-a-non-ASCII-user")
	vCover("end")
}
