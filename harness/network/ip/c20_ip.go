package ip

// C20 — IPv4/IPv6/port-range text round trips and standard IP arithmetic.

func symIPv4() *IPv4 {
	p := vU8("mask")
	vAssume(p <= 32)
	return NewIPv4(vU8("a"), vU8("b"), vU8("c"), vU8("d"), p)
}

func H_C20_ipv4_text() {
	x := symIPv4()
	y := NewIPv4FromString(x.String())
	vCheck(y != nil, "ipv4/text/parse-of-own-output-ok")
	if y != nil {
		vCheck(*y == *x, "ipv4/text/parse-print-identity")
	}
	vCheck(x.ToUInt32() == uint32(x.A)<<24|uint32(x.B)<<16|uint32(x.C)<<8|uint32(x.D), "ipv4/ToUInt32-big-endian")
	vCover("end")
}

// every textual form of an address says the same thing: CIDRAddress is the address with its prefix, CIDRMask the network
// address with the same prefix, and a range prints as its two ends
func H_C20_ipv4_cidr_text() {
	x := symIPv4()
	y := NewIPv4FromString(x.CIDRAddress())
	vCheck(y != nil && *y == *x, "ipv4/text/CIDRAddress-parses-to-the-address")
	p := uint(x.MaskBits)
	mask := uint32((uint64(0xFFFFFFFF) << (32 - p)) & 0xFFFFFFFF)
	z := NewIPv4FromString(x.CIDRMask())
	vCheck(z != nil, "ipv4/text/CIDRMask-parses")
	if z != nil {
		vCheck(z.ToUInt32() == x.ToUInt32()&mask, "ipv4/text/CIDRMask-is-the-network-address")
		vCheck(z.MaskBits == x.MaskBits, "ipv4/text/CIDRMask-keeps-prefix")
	}
	vCover("end")
}

func H_C20_ipv4_range_text() {
	s := NewIPv4(vU8("sa"), vU8("sb"), vU8("sc"), vU8("sd"), 32)
	e := NewIPv4(vU8("ea"), vU8("eb"), vU8("ec"), vU8("ed"), 32)
	r := &IPv4Range{Start: s, End: e}
	vCheck(r.String() == s.String()+" - "+e.String(), "ipv4/text/Range.String-is-start-dash-end")
	vCover("end")
}

func H_C20_ipv4_subnet() {
	addr := NewIPv4(vU8("a"), vU8("b"), vU8("c"), vU8("d"), 32)
	net := NewIPv4(vU8("na"), vU8("nb"), vU8("nc"), vU8("nd"), uint8(vParam("p")))
	p := uint(vParam("p"))
	a, n := addr.ToUInt32(), net.ToUInt32()
	// standard arithmetic: the top p bits agree (64-bit shift so that p = 0 means "all addresses")
	want := (uint64(a)^uint64(n))>>(32-p) == 0
	vCheck(addr.IsInSubnet(net) == want, "ipv4/IsInSubnet-standard-arithmetic")
	m := net.ComputeMask()
	mask := uint32((uint64(0xFFFFFFFF) << (32 - p)) & 0xFFFFFFFF)
	vCheck(m.ToUInt32() == n&mask, "ipv4/ComputeMask-is-network-address")
	vCheck(m.MaskBits == net.MaskBits, "ipv4/ComputeMask-keeps-prefix")
	// the queries are read-only: the address they were asked about is unchanged, and asking again gives the same answers
	vCheck(net.ToUInt32() == n && addr.ToUInt32() == a, "ipv4/queries-leave-their-operands-unchanged")
	vCheck(addr.IsInSubnet(net) == want, "ipv4/IsInSubnet-same-answer-after-ComputeMask")
	vCover("end")
}

func H_C20_ipv4_range() {
	x := NewIPv4(vU8("a"), vU8("b"), vU8("c"), vU8("d"), 32)
	s := NewIPv4(vU8("sa"), vU8("sb"), vU8("sc"), vU8("sd"), 32)
	e := NewIPv4(vU8("ea"), vU8("eb"), vU8("ec"), vU8("ed"), 32)
	want := vAnd(x.ToUInt32() >= s.ToUInt32(), x.ToUInt32() <= e.ToUInt32())
	vCheck(x.IsInRange(s, e) == want, "ipv4/IsInRange-unsigned-interval")
	r := &IPv4Range{Start: s, End: e}
	vCheck(r.Contains(x) == want, "ipv4/Range.Contains")
	vCover("end")
}

func symIPv6(p string) *IPv6 {
	return NewIPv6(vU16(p+"a"), vU16(p+"b"), vU16(p+"c"), vU16(p+"d"), vU16(p+"e"), vU16(p+"f"), vU16(p+"g"), vU16(p+"h"))
}

func H_C20_ipv6_text() {
	// one symbolic group at position g (the other groups are symbolic but of one hex digit) keeps the digit-count case split small
	x := symIPv6("")
	g := vParam("g")
	grp := [8]*uint16{&x.A, &x.B, &x.C, &x.D, &x.E, &x.F, &x.G, &x.H}
	for i := 0; i < 8; i++ {
		if i != g {
			vAssume(*grp[i] < 16)
		}
	}
	y := NewIPv6FromString(x.String())
	vCheck(y != nil, "ipv6/text/parse-of-own-output-ok")
	if y != nil {
		vCheck(*y == *x, "ipv6/text/parse-print-identity")
	}
	vCover("end")
}

func H_C20_ipv6_range() {
	x, s, e := symIPv6("x"), symIPv6("s"), symIPv6("e")
	xv, sv, ev := x.ToUInt128(), s.ToUInt128(), e.ToUInt128()
	vCheck(xv[0] == uint64(x.A)<<48|uint64(x.B)<<32|uint64(x.C)<<16|uint64(x.D), "ipv6/ToUInt128-high")
	vCheck(xv[1] == uint64(x.E)<<48|uint64(x.F)<<32|uint64(x.G)<<16|uint64(x.H), "ipv6/ToUInt128-low")
	ge := vOr(xv[0] > sv[0], vAnd(xv[0] == sv[0], xv[1] >= sv[1]))
	le := vOr(xv[0] < ev[0], vAnd(xv[0] == ev[0], xv[1] <= ev[1]))
	vCheck(x.IsInRange(s, e) == vAnd(ge, le), "ipv6/IsInRange-128-bit-unsigned-interval")
	r := &IPv6Range{Start: s, End: e}
	vCheck(r.Contains(x) == vAnd(ge, le), "ipv6/Range.Contains")
	vCheck(x.IsInSubnet(s) == vAnd(xv[0] == sv[0], xv[1] == sv[1]), "ipv6/IsInSubnet-is-address-equality")
	vCover("end")
}

func H_C20_port_range() {
	r := NewTCPPortRange(vU16("start"), vU16("end"))
	q, err := NewTCPPortRangeFromString(r.String())
	vCheck(err == nil, "port/parse-of-own-output-ok")
	if err == nil {
		vCheck(*q == *r, "port/parse-print-identity")
	}
	vCover("end")
}
