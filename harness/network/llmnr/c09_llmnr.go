package llmnr

// C09 — LLMNR codec against an independent RFC 1035 4.1 codec written here.

// ---- reference codec -------------------------------------------------------

type refName []string // labels

func refJoin(n refName) string {
	s := ""
	for i, l := range n {
		if i > 0 {
			s += "."
		}
		s += l
	}
	return s
}

// refEncodeName writes labels; if ptr >= 0 the name ends with a compression pointer to offset ptr instead of the root label.
func refEncodeName(buf []byte, n refName, ptr int) []byte {
	for _, l := range n {
		buf = append(buf, byte(len(l)))
		buf = append(buf, l...)
	}
	if ptr >= 0 {
		return append(buf, 0xC0|byte(ptr>>8), byte(ptr))
	}
	return append(buf, 0)
}

// refDecodeName: recursive descent with the strict rule "a pointer must point strictly before the start of this name".
func refDecodeName(data []byte, off int) (refName, int, bool) {
	start := off
	var labels refName
	for {
		if off >= len(data) {
			return nil, 0, false
		}
		l := int(data[off])
		if l == 0 {
			return labels, off + 1, true
		}
		if l&0xC0 == 0xC0 {
			if off+1 >= len(data) {
				return nil, 0, false
			}
			p := (l&0x3F)<<8 | int(data[off+1])
			if p >= start {
				return nil, 0, false
			}
			rest, _, ok := refDecodeName(data, p)
			if !ok {
				return nil, 0, false
			}
			return append(labels, rest...), off + 2, true
		}
		if l > 63 || off+1+l > len(data) {
			return nil, 0, false
		}
		labels = append(labels, string(data[off+1:off+1+l]))
		off += 1 + l
	}
}

func be16(data []byte, off int) uint16 { return uint16(data[off])<<8 | uint16(data[off+1]) }
func be32(data []byte, off int) uint32 {
	return uint32(data[off])<<24 | uint32(data[off+1])<<16 | uint32(data[off+2])<<8 | uint32(data[off+3])
}

// ---- symbolic content ------------------------------------------------------

func symLabelBytes(tag string, n int) string {
	s := vString(tag, n)
	for i := 0; i < n; i++ {
		vAssume(s[i] != '.')
	}
	return s
}

// symName: `labels` labels of `llen` bytes each (all bytes symbolic, no dot)
func symNameLabels(tag string, labels, llen int) refName {
	var n refName
	for i := 0; i < labels; i++ {
		n = append(n, symLabelBytes(tag+string(rune('a'+i)), llen))
	}
	return n
}

func symRR(tag string, labels, llen, rdlen int) (ResourceRecord, refName) {
	n := symNameLabels(tag+"n", labels, llen)
	rr := ResourceRecord{Name: refJoin(n), Type: vU16(tag + "t"), Class: vU16(tag + "c"), TTL: vU32(tag + "ttl"), RData: vBytes(tag+"rd", rdlen)}
	// the length field is derived data: a record built as a literal, or edited after decoding, carries an arbitrary stale
	// value, and the encoder describes the RDATA the record holds
	rr.RDLength = vU16(tag + "stale-rdlength")
	return rr, n
}

// sameName: equal names; the root name has two spellings ("" when built, "." when decoded)
func sameName(a, b string) bool {
	if a == "." {
		a = ""
	}
	if b == "." {
		b = ""
	}
	return vStrEq(a, b)
}

func rrSame(a *ResourceRecord, b *ResourceRecord, id string) {
	vCheck(sameName(a.Name, b.Name), id+"/name")
	vCheck(a.Type == b.Type && a.Class == b.Class, id+"/type-class")
	vCheck(a.TTL == b.TTL, id+"/ttl")
	vCheck(int(a.RDLength) == len(b.RData), id+"/rdlength")
	vCheck(vBytesEq(a.RData, b.RData), id+"/rdata")
}

// ---- harnesses -------------------------------------------------------------

// Encode then Decode returns the same header, questions and records in every section; the reference decoder reads
// the library's bytes to the same content.
func H_C09_roundtrip() {
	nq, na, ns, nr := vParam("q"), vParam("an"), vParam("ns"), vParam("ar")
	labels, llen, rdlen := vParam("labels"), vParam("llen"), vParam("rd")
	m := &Message{}
	m.ID, m.Flags = vU16("id"), vU16("flags")
	var qn []refName
	for i := 0; i < nq; i++ {
		n := symNameLabels("q"+string(rune('0'+i)), labels, llen)
		qn = append(qn, n)
		m.Questions = append(m.Questions, Question{Name: refJoin(n), Type: vU16("qt" + string(rune('0'+i))), Class: vU16("qc" + string(rune('0'+i)))})
	}
	var names [3][]refName
	for i := 0; i < na; i++ {
		rr, n := symRR("an"+string(rune('0'+i)), labels, llen, rdlen)
		m.Answers = append(m.Answers, rr)
		names[0] = append(names[0], n)
	}
	for i := 0; i < ns; i++ {
		rr, n := symRR("ns"+string(rune('0'+i)), labels, llen, rdlen)
		m.Authority = append(m.Authority, rr)
		names[1] = append(names[1], n)
	}
	for i := 0; i < nr; i++ {
		rr, n := symRR("ar"+string(rune('0'+i)), labels, llen, rdlen)
		m.Additional = append(m.Additional, rr)
		names[2] = append(names[2], n)
	}
	// the header counts hold arbitrary earlier values (a message that was encoded before and then edited, or a literal):
	// Encode describes the sections as they are now
	m.QDCount, m.ANCount, m.NSCount, m.ARCount = vU16("prev.qd"), vU16("prev.an"), vU16("prev.ns"), vU16("prev.ar")
	raw, err := m.Encode()
	vCheck(err == nil, "roundtrip/encode-ok")
	// a result already returned is the caller's: encoding another message later does not disturb it
	if err == nil {
		keep := append([]byte{}, raw...)
		later := &Message{}
		later.ID, later.Flags = vU16("later.id"), vU16("later.flags")
		later.Questions = append(later.Questions, Question{Name: "later.local", Type: 1, Class: 1})
		_, _ = later.Encode()
		vCheck(vBytesEq(raw, keep), "roundtrip/encode-result-not-disturbed-by-a-later-encode")
	}
	rx := append([]byte{}, raw...)
	d, err := DecodeMessage(rx)
	vCheck(err == nil, "roundtrip/decode-ok")
	if err != nil {
		return
	}
	// the receive buffer is reused for the next datagram: the decoded message keeps what was on the wire
	for i := range rx {
		rx[i] ^= 0xFF
	}
	vCheck(d.ID == m.ID && d.Flags == m.Flags, "roundtrip/header-id-flags")
	vCheck(int(d.QDCount) == nq && int(d.ANCount) == na && int(d.NSCount) == ns && int(d.ARCount) == nr, "roundtrip/header-counts")
	vCheck(len(d.Questions) == nq, "roundtrip/questions-len")
	vCheck(len(d.Answers) == na, "roundtrip/answers-len")
	vCheck(len(d.Authority) == ns, "roundtrip/authority-len")
	vCheck(len(d.Additional) == nr, "roundtrip/additional-len")
	for i := 0; i < nq && i < len(d.Questions); i++ {
		vCheck(sameName(d.Questions[i].Name, m.Questions[i].Name), "roundtrip/question/name")
		vCheck(d.Questions[i].Type == m.Questions[i].Type && d.Questions[i].Class == m.Questions[i].Class, "roundtrip/question/type-class")
	}
	for i := 0; i < na && i < len(d.Answers); i++ {
		rrSame(&d.Answers[i], &m.Answers[i], "roundtrip/answer")
	}
	for i := 0; i < ns && i < len(d.Authority); i++ {
		rrSame(&d.Authority[i], &m.Authority[i], "roundtrip/authority")
	}
	for i := 0; i < nr && i < len(d.Additional); i++ {
		rrSame(&d.Additional[i], &m.Additional[i], "roundtrip/additional")
	}
	// reference parse of the library's bytes
	vCheck(len(raw) >= 12, "ref/header-size")
	vCheck(be16(raw, 0) == m.ID && be16(raw, 2) == m.Flags, "ref/header-id-flags-big-endian")
	vCheck(int(be16(raw, 4)) == nq && int(be16(raw, 6)) == na && int(be16(raw, 8)) == ns && int(be16(raw, 10)) == nr, "ref/header-counts")
	off := 12
	for i := 0; i < nq; i++ {
		n, next, ok := refDecodeName(raw, off)
		vCheck(ok, "ref/question/name-parses")
		if !ok {
			return
		}
		vCheck(vStrEq(refJoin(n), refJoin(qn[i])), "ref/question/name")
		vCheck(next+4 <= len(raw), "ref/question/size")
		if next+4 > len(raw) {
			return
		}
		vCheck(be16(raw, next) == m.Questions[i].Type && be16(raw, next+2) == m.Questions[i].Class, "ref/question/type-class")
		off = next + 4
	}
	sections := [3][]ResourceRecord{m.Answers, m.Authority, m.Additional}
	for s := 0; s < 3; s++ {
		for i := range sections[s] {
			n, next, ok := refDecodeName(raw, off)
			vCheck(ok, "ref/record/name-parses")
			if !ok {
				return
			}
			vCheck(vStrEq(refJoin(n), refJoin(names[s][i])), "ref/record/name")
			vCheck(next+10 <= len(raw), "ref/record/fixed-part-size")
			if next+10 > len(raw) {
				return
			}
			rr := &sections[s][i]
			vCheck(be16(raw, next) == rr.Type && be16(raw, next+2) == rr.Class && be32(raw, next+4) == rr.TTL, "ref/record/type-class-ttl")
			vCheck(int(be16(raw, next+8)) == len(rr.RData), "ref/record/rdlength")
			vCheck(next+10+len(rr.RData) <= len(raw), "ref/record/rdata-size")
			if next+10+len(rr.RData) > len(raw) {
				return
			}
			vCheck(vBytesEq(raw[next+10:next+10+len(rr.RData)], rr.RData), "ref/record/rdata")
			off = next + 10 + len(rr.RData)
		}
	}
	vCheck(off == len(raw), "ref/no-trailing-bytes")
	vCover("end")
}

// The library decodes the reference encoder's output with name compression: the answer name is `keep` own labels
// followed by a pointer into the question name (to its label number `skip`).
func H_C09_compressed() {
	labels, llen := vParam("labels"), vParam("llen")
	keep, skip := vParam("keep"), vParam("skip")
	if skip > labels {
		vCover("end") // the grid is a product: a pointer cannot designate a label the question name does not have
		return
	}
	qn := symNameLabels("q", labels, llen)
	own := symNameLabels("o", keep, llen)
	var raw []byte
	id, flags := vU16("id"), vU16("flags")
	raw = append(raw, byte(id>>8), byte(id), byte(flags>>8), byte(flags), 0, 1, 0, 1, 0, 0, 0, 0)
	raw = refEncodeName(raw, qn, -1)
	qt, qc := vU16("qt"), vU16("qc")
	raw = append(raw, byte(qt>>8), byte(qt), byte(qc>>8), byte(qc))
	target := 12 + skip*(1+llen) // offset of label `skip` of the question name (or of its root label)
	raw = refEncodeName(raw, own, target)
	at, ac, ttl := vU16("at"), vU16("ac"), vU32("ttl")
	rd := vBytes("rd", 2)
	raw = append(raw, byte(at>>8), byte(at), byte(ac>>8), byte(ac), byte(ttl>>24), byte(ttl>>16), byte(ttl>>8), byte(ttl), 0, 2)
	raw = append(raw, rd...)
	want := append(append(refName{}, own...), qn[skip:]...)
	d, err := DecodeMessage(raw)
	vCheck(err == nil, "compressed/decode-ok")
	if err != nil {
		return
	}
	vCheck(d.ID == id && d.Flags == flags, "compressed/header")
	vCheck(len(d.Questions) == 1 && len(d.Answers) == 1, "compressed/section-sizes")
	if len(d.Questions) == 1 && len(d.Answers) == 1 {
		vCheck(vStrEq(d.Questions[0].Name, refJoin(qn)), "compressed/question-name")
		if len(want) > 0 {
			vCheck(vStrEq(d.Answers[0].Name, refJoin(want)), "compressed/answer-name-expanded")
		}
		vCheck(d.Answers[0].Type == at && d.Answers[0].Class == ac && d.Answers[0].TTL == ttl, "compressed/answer-fields")
		vCheck(vBytesEq(d.Answers[0].RData, rd), "compressed/answer-rdata")
	}
	vCover("end")
}

// Pointer rule: a name at offset `at` that is a pointer to p: rejected unless p < at (forward and self pointers never loop).
func H_C09_pointer_rule() {
	n := vParam("n")
	at := vParam("at")
	data := vBytes("data", n)
	if at+1 >= n {
		vCover("end")
		return
	}
	vAssume(data[at]&0xC0 == 0xC0)
	p := int(data[at]&0x3F)<<8 | int(data[at+1])
	name, next, err := DecodeDomainName(data, at)
	if p >= at {
		vCheck(err != nil, "pointer/not-strictly-backwards-rejected")
	}
	if err == nil {
		ref, rnext, ok := refDecodeName(data, at)
		vCheck(ok, "pointer/accepted-only-if-reference-accepts")
		if ok {
			vCheck(next == rnext, "pointer/next-offset")
			if len(ref) > 0 {
				vCheck(vStrEq(name, refJoin(ref)), "pointer/name")
			}
		}
	}
	vCover("end")
}

// The message-building API: a message assembled with NewMessage / AddQuestion / AddAnswer / AddAnswerClassINType* is valid
// by the library's own Validate, carries exactly what was added (counts kept in step with the sections) and round-trips.
func H_C09_builder() {
	labels, llen := vParam("labels"), vParam("llen")
	m := NewMessage()
	vCheck(len(m.Questions) == 0 && len(m.Answers) == 0 && len(m.Authority) == 0 && len(m.Additional) == 0, "builder/new-message-is-empty")
	m.ID = vU16("id")
	m.Flags = vU16("flags")
	m.SetQuery()
	vCheck(m.IsQuery() && !m.IsResponse() && m.Flags == vU16("flags")&^0x8000, "builder/SetQuery-clears-only-QR")
	qn := refJoin(symNameLabels("q", labels, llen))
	err := m.AddQuestion(qn, vU16("qt"), vU16("qc"))
	vCheck(err == nil, "builder/valid-question-accepted")
	vCheck(m.QDCount == 1 && len(m.Questions) == 1, "builder/question-count-in-step")
	r := CreateResponseFromMessage(m)
	vCheck(r.ID == m.ID && r.IsResponse() && r.Flags == m.Flags|0x8000, "builder/response-echoes-id-and-sets-QR")
	vCheck(len(r.Questions) == 0 && len(r.Answers) == 0 && r.QDCount == 0 && r.ANCount == 0, "builder/response-starts-empty")
	an := refJoin(symNameLabels("a", labels, llen))
	rr := ResourceRecord{Name: an, Type: vU16("at"), Class: vU16("ac"), TTL: vU32("attl"), RData: vBytes("ard", 3)}
	rr.RDLength = 3
	vCheck(r.AddAnswer(rr) == nil, "builder/valid-answer-accepted")
	// the typed helpers add the record and, when the name was not asked yet, the matching question
	vCheck(r.AddAnswerClassINTypeA(an, "192.0.2.7") == nil, "builder/A-answer-accepted")
	vCheck(r.AddAnswerClassINTypeAAAA(qn, "2001:db8::1") == nil, "builder/AAAA-answer-accepted")
	vCheck(len(r.Answers) == 3 && r.ANCount == 3, "builder/answer-count-in-step")
	vCheck(int(r.QDCount) == len(r.Questions), "builder/question-count-in-step-after-typed-helpers")
	vCheck(r.Validate() == nil, "builder/built-message-validates")
	if len(r.Answers) == 3 {
		a, b := r.Answers[1], r.Answers[2]
		vCheck(a.Type == TypeA && a.Class == ClassIN && len(a.RData) == 4 && a.RData[0] == 192 && a.RData[1] == 0 && a.RData[2] == 2 && a.RData[3] == 7, "builder/A-record-content")
		vCheck(b.Type == TypeAAAA && b.Class == ClassIN && len(b.RData) == 16 && b.RData[0] == 0x20 && b.RData[1] == 0x01 && b.RData[2] == 0x0d && b.RData[3] == 0xb8 && b.RData[15] == 1, "builder/AAAA-record-content")
		vCheck(int(a.RDLength) == len(a.RData) && int(b.RDLength) == len(b.RData), "builder/rdlength-matches")
	}
	raw, err := r.Encode()
	vCheck(err == nil, "builder/encode-ok")
	if err != nil {
		return
	}
	d, err := DecodeMessage(raw)
	vCheck(err == nil, "builder/decode-ok")
	if err != nil {
		return
	}
	vCheck(d.ID == r.ID && d.Flags == r.Flags && d.Validate() == nil, "builder/roundtrip-header")
	vCheck(len(d.Questions) == len(r.Questions) && len(d.Answers) == 3, "builder/roundtrip-section-sizes")
	for i := 0; i < len(d.Answers) && i < 3; i++ {
		rrSame(&d.Answers[i], &r.Answers[i], "builder/roundtrip-answer")
	}
	vCover("end")
}

// Validate: exactly the messages whose counts match their sections and whose question / answer names are valid pass.
func H_C09_validate() {
	m := &Message{}
	m.QDCount, m.ANCount, m.NSCount, m.ARCount = vU16("qd"), vU16("an"), vU16("ns"), vU16("ar")
	nq, na, ns, nr := vParam("q"), vParam("a"), vParam("n"), vParam("r")
	long := ""
	for i := 0; i < 64; i++ {
		long += "x"
	}
	bad := vParam("bad") // 0 none, 1 a question label of 64 bytes, 2 an answer label of 64 bytes
	for i := 0; i < nq; i++ {
		n := "host"
		if bad == 1 && i == nq-1 {
			n = "a." + long
		}
		m.Questions = append(m.Questions, Question{Name: n, Type: 1, Class: 1})
	}
	for i := 0; i < na; i++ {
		n := "host"
		if bad == 2 && i == 0 {
			n = long + ".b"
		}
		m.Answers = append(m.Answers, ResourceRecord{Name: n})
	}
	for i := 0; i < ns; i++ {
		m.Authority = append(m.Authority, ResourceRecord{Name: "host"})
	}
	for i := 0; i < nr; i++ {
		m.Additional = append(m.Additional, ResourceRecord{Name: "host"})
	}
	countsOK := vAnd(vAnd(int(m.QDCount) == nq, int(m.ANCount) == na), vAnd(int(m.NSCount) == ns, int(m.ARCount) == nr))
	namesOK := !((bad == 1 && nq > 0) || (bad == 2 && na > 0))
	vCheck((m.Validate() == nil) == vAnd(countsOK, namesOK), "validate/accepts-exactly-consistent-messages")
	vCover("end")
}
