package llmnr

import (
	"net"
	"runtime"
	"time"
)

// C18 — LLMNR server and client: each response is produced from, and delivered for, exactly one request.
//
// Goroutines are explored under ONE adversarial schedule (stated in DESIGN.md): a started goroutine runs only when the
// code that started it blocks — i.e. the receive loop first drains every queued datagram, then the handlers run. Natively
// the same order is obtained with GOMAXPROCS(1) and datagrams that are already queued when the loop starts.

func c18query(id uint16, name string) []byte {
	m := NewMessage()
	m.ID = id
	m.SetQuery()
	m.AddQuestion(name, TypeA, ClassIN)
	// an additional record whose RDATA identifies the request (the echo handler copies it into its answer)
	m.Additional = append(m.Additional, ResourceRecord{Name: name, Type: TypeA, Class: ClassIN, TTL: 1, RDLength: 4, RData: []byte{name[0], name[1], name[2], name[3]}})
	raw, _ := m.Encode()
	return raw
}

// the server comes from the library's constructor and is given the harness's socket instead of joining the multicast group
func c18server(handlers []Handler, conn *net.UDPConn) *Server {
	s, err := NewServer("udp4", handlers)
	vAssume(err == nil && s != nil)
	s.Conn = conn
	return s
}

func c18loopback() (*net.UDPConn, *net.UDPConn, bool) {
	a, err1 := net.ListenUDP("udp", &net.UDPAddr{IP: net.IPv4(127, 0, 0, 1)})
	b, err2 := net.ListenUDP("udp", &net.UDPAddr{IP: net.IPv4(127, 0, 0, 1)})
	return a, b, err1 == nil && err2 == nil
}

// server: two queries are queued before the receive loop starts; the handler answers from the message it is given.
func H_C18_llmnr_server_isolation() {
	runtime.GOMAXPROCS(1)
	srv, cli, ok := c18loopback()
	if !ok {
		return // no loopback natively: nothing can be observed
	}
	defer cli.Close()
	id0, id1 := vU16("id0"), vU16("id1")
	vAssume(id0 != id1)
	names := [2]string{"alpha", "bravo"}
	echo := HandlerFunc(func(s *Server, remote net.Addr, w ResponseWriter, m *Message) bool {
		r := CreateResponseFromMessage(m)
		for _, q := range m.Questions {
			r.AddQuestion(q.Name, q.Type, q.Class)
		}
		for _, rr := range m.Additional {
			r.AddAnswer(ResourceRecord{Name: rr.Name, Type: rr.Type, Class: rr.Class, TTL: rr.TTL, RDLength: rr.RDLength, RData: rr.RData})
		}
		w.WriteMessage(r)
		return false
	})
	s := c18server([]Handler{echo}, srv)
	to := srv.LocalAddr().(*net.UDPAddr)
	cli.WriteToUDP(c18query(id0, names[0]), to)
	cli.WriteToUDP(c18query(id1, names[1]), to)
	go s.Serve()
	time.Sleep(300 * time.Millisecond)
	buf := make([]byte, 600)
	var seen [2]bool
	for i := 0; i < 2; i++ {
		cli.SetReadDeadline(time.Now().Add(2 * time.Second))
		n, _, err := cli.ReadFromUDP(buf)
		vCheck(err == nil, "llmnr/server/a-response-per-query")
		if err != nil {
			break
		}
		r, err := DecodeMessage(buf[:n])
		vCheck(err == nil && r != nil && len(r.Questions) == 1, "llmnr/server/response-parses")
		if err != nil || r == nil || len(r.Questions) != 1 {
			break
		}
		vCheck(r.IsResponse(), "llmnr/server/response-bit")
		k := -1
		if r.ID == id0 {
			k = 0
		} else if r.ID == id1 {
			k = 1
		}
		vCheck(k >= 0, "llmnr/server/response-id-is-a-request-id")
		if k >= 0 {
			vCheck(!seen[k], "llmnr/server/one-response-per-request")
			seen[k] = true
			vCheck(vStrEq(r.Questions[0].Name, names[k]), "llmnr/server/response-answers-the-request-with-its-id")
			vCheck(len(r.Answers) == 1 && len(r.Answers[0].RData) == 4 && r.Answers[0].RData[0] == names[k][0], "llmnr/server/handler-saw-the-record-bytes-of-its-own-request")
		}
	}
	s.Close()
	vCover("end")
}

func c18response(id uint16, addr byte) []byte {
	m := NewMessage()
	m.ID = id
	m.SetResponse()
	m.AddQuestion("alpha", TypeA, ClassIN)
	m.AddAnswer(ResourceRecord{Name: "alpha", Type: TypeA, Class: ClassIN, TTL: 30, RDLength: 4, RData: []byte{10, 0, 0, addr}})
	raw, _ := m.Encode()
	return raw
}

// client: the read loop hands every response to the query with the matching id; duplicates, unknown ids and
// non-responses neither reach another query nor stop the loop.
func H_C18_llmnr_client_matching() {
	runtime.GOMAXPROCS(1)
	conn, peer, ok := c18loopback()
	if !ok {
		return
	}
	defer peer.Close()
	c := &Client{Conn: conn, Timeout: time.Second, Closed: make(chan struct{})}
	idA, idB, idX := vU16("idA"), vU16("idB"), vU16("idX")
	vAssume(idA != idB && idX != idA && idX != idB)
	chA, chB := make(chan *Message, 1), make(chan *Message, 1)
	c.Queries.Store(idA, chA)
	c.Queries.Store(idB, chB)
	to := conn.LocalAddr().(*net.UDPAddr)
	peer.WriteToUDP(c18response(idA, 1), to)
	peer.WriteToUDP(c18response(idA, 2), to) // a second host answers the same multicast query
	peer.WriteToUDP(c18response(idX, 3), to) // nobody asked
	peer.WriteToUDP(c18query(idB, "bravo"), to)
	peer.WriteToUDP(c18response(idB, 4), to)
	go c.readLoop()
	time.Sleep(300 * time.Millisecond)
	select {
	case m := <-chA:
		vCheck(m != nil && m.ID == idA, "llmnr/client/query-A-gets-the-response-with-its-id")
		// the message handed over keeps its own answer although the read loop has since received four more datagrams
		vCheck(m != nil && len(m.Answers) == 1 && len(m.Answers[0].RData) == 4 && m.Answers[0].RData[3] == 1, "llmnr/client/delivered-response-keeps-its-own-answer-bytes")
	default:
		vCheck(false, "llmnr/client/query-A-gets-a-response")
	}
	select {
	case m := <-chB:
		vCheck(m != nil && m.ID == idB && m.IsResponse(), "llmnr/client/query-B-gets-the-response-with-its-id")
		vCheck(m != nil && len(m.Answers) == 1 && len(m.Answers[0].RData) == 4 && m.Answers[0].RData[3] == 4, "llmnr/client/query-B-gets-its-own-answer-bytes")
	default:
		vCheck(false, "llmnr/client/query-B-gets-a-response-although-A-was-answered-twice")
	}
	select {
	case <-chA:
		vCheck(false, "llmnr/client/no-second-delivery-to-A")
	default:
	}
	c.Close()
	vCover("end")
}

// Close while the receive loop is waiting: Serve / readLoop return (one schedule; natively a 3 s observation time-out).
func H_C18_llmnr_close() {
	conn, peer, ok := c18loopback()
	if !ok {
		return
	}
	defer peer.Close()
	done := make(chan struct{})
	if vParam("who") == 0 {
		s := c18server([]Handler{HandlerFunc(func(*Server, net.Addr, ResponseWriter, *Message) bool { return false })}, conn)
		go func() {
			s.Serve()
			close(done)
		}()
		if vParam("served") == 1 {
			peer.WriteToUDP(c18query(vU16("id"), "alpha"), conn.LocalAddr().(*net.UDPAddr))
		}
		time.Sleep(100 * time.Millisecond)
		s.Close()
		s.Close() // closing twice is harmless
	} else {
		c := &Client{Conn: conn, Timeout: time.Second, Closed: make(chan struct{})}
		go func() {
			c.readLoop()
			close(done)
		}()
		if vParam("served") == 1 {
			peer.WriteToUDP(c18response(vU16("id"), 1), conn.LocalAddr().(*net.UDPAddr))
		}
		time.Sleep(100 * time.Millisecond)
		c.Close()
		c.Close()
	}
	select {
	case <-done:
	case <-time.After(3 * time.Second):
		vCheck(false, "llmnr/close/receive-loop-returns")
	}
	vCover("end")
}

// Close overtaking the start of the server (no socket yet): the shutdown signal is still given, so that a Serve which
// starts afterwards on a supplied socket returns at once instead of serving for ever.
func H_C18_llmnr_close_before_serve() {
	conn, peer, ok := c18loopback()
	if !ok {
		return
	}
	defer peer.Close()
	defer conn.Close()
	s := c18server([]Handler{HandlerFunc(func(*Server, net.Addr, ResponseWriter, *Message) bool { return false })}, nil)
	s.Close()
	select {
	case <-s.Closed:
	default:
		vCheck(false, "llmnr/close/before-start-still-signals-shutdown")
	}
	s.Conn = conn
	conn.SetReadDeadline(time.Now().Add(2 * time.Second)) // so that a native run of a broken Serve ends
	done := make(chan struct{})
	go func() {
		s.Serve()
		close(done)
	}()
	select {
	case <-done:
	case <-time.After(500 * time.Millisecond):
		vCheck(false, "llmnr/close/serve-after-close-returns")
	}
	vCover("end")
}

// server, two clients: each query is answered to the address it came from (the writer handed to a handler belongs to
// that request alone, also while another request's handler has not run yet).
func H_C18_llmnr_server_two_clients() {
	runtime.GOMAXPROCS(1)
	srv, cli0, ok := c18loopback()
	if !ok {
		return
	}
	defer cli0.Close()
	cli1, err := net.ListenUDP("udp", &net.UDPAddr{IP: net.IPv4(127, 0, 0, 1)})
	if err != nil {
		return
	}
	defer cli1.Close()
	id0, id1 := vU16("id0"), vU16("id1")
	vAssume(id0 != id1)
	echo := HandlerFunc(func(s *Server, remote net.Addr, w ResponseWriter, m *Message) bool {
		r := CreateResponseFromMessage(m)
		for _, q := range m.Questions {
			r.AddQuestion(q.Name, q.Type, q.Class)
		}
		w.WriteMessage(r)
		return false
	})
	s := c18server([]Handler{echo}, srv)
	to := srv.LocalAddr().(*net.UDPAddr)
	cli0.WriteToUDP(c18query(id0, "alpha"), to)
	cli1.WriteToUDP(c18query(id1, "bravo"), to)
	go s.Serve()
	time.Sleep(300 * time.Millisecond)
	buf := make([]byte, 600)
	clients := [2]*net.UDPConn{cli0, cli1}
	ids := [2]uint16{id0, id1}
	for k := 0; k < 2; k++ {
		clients[k].SetReadDeadline(time.Now().Add(time.Second))
		n, _, err := clients[k].ReadFromUDP(buf)
		vCheck(err == nil, "llmnr/server/each-client-gets-a-response")
		if err != nil {
			continue
		}
		r, err := DecodeMessage(buf[:n])
		vCheck(err == nil && r != nil && r.ID == ids[k], "llmnr/server/response-goes-to-the-client-that-asked")
		// and nothing else arrives there
		clients[k].SetReadDeadline(time.Now().Add(200 * time.Millisecond))
		_, _, err = clients[k].ReadFromUDP(buf)
		vCheck(err != nil, "llmnr/server/no-foreign-response")
	}
	s.Close()
	vCover("end")
}
