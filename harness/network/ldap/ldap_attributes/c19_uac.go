package ldap_attributes

// C19 — userAccountControl: String() and GetFlags() yield exactly the named set bits, each once, in a deterministic
// order, whatever the map iteration order.

func c19sortStrings(xs []string) {
	for i := 1; i < len(xs); i++ {
		for j := i; j > 0 && xs[j] < xs[j-1]; j-- {
			xs[j], xs[j-1] = xs[j-1], xs[j]
		}
	}
}

func H_C19_uac() {
	mask := uint32(vParam("window"))
	base := uint32(0)
	if vParam("others") == 1 {
		base = ^mask
	}
	vMapOrderReverse(vParam("reverse") == 1) // map iteration order: insertion order or its reverse
	w := UserAccountControl(base | (vU32("w") & mask))
	var names []string
	var bits []UserAccountControl
	for b := 0; b < 32; b++ {
		flag := UserAccountControl(1) << uint(b)
		if name, named := UserAccountControlMap[flag]; named && w&flag != 0 {
			names = append(names, name)
			bits = append(bits, flag)
		}
	}
	c19sortStrings(names)
	want := ""
	for i, n := range names {
		if i > 0 {
			want += "|"
		}
		want += n
	}
	vCheck(vStrEq(w.String(), want), "uac/String-is-sorted-names-of-set-bits")
	got := w.GetFlags()
	vCheck(len(got) == len(bits), "uac/GetFlags-count")
	if len(got) == len(bits) {
		for i := range bits {
			vCheck(got[i] == bits[i], "uac/GetFlags-ascending-set-bits")
		}
	}
	vCover("end")
}

// the table itself: one name per single-bit flag, no placeholder, no duplicate names
func H_C19_uac_table() {
	seen := map[string]bool{}
	for flag, name := range UserAccountControlMap {
		vCheck(flag != 0 && flag&(flag-1) == 0, "uac/table-keys-are-single-bits")
		vCheck(name != "" && name != "UNKNOWN", "uac/table-names-not-placeholder")
		vCheck(!seen[name], "uac/table-names-unique")
		seen[name] = true
	}
	vCover("end")
}
