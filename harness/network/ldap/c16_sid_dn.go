package ldap

// C16 — binary SIDs (MS-DTYP 2.4.2.1) and DNs decode to their canonical text.

// refDecimal renders v in base 10 (independent of fmt): digit count by comparison with powers of ten,
// digit i = (v / 10^i) % 10.
func refDecimal(v uint64) string {
	n := 1
	p := uint64(10)
	for n < 20 && v >= p {
		n++
		if n < 20 {
			p *= 10
		}
	}
	buf := make([]byte, n)
	d := uint64(1)
	for i := n - 1; i >= 0; i-- {
		buf[i] = byte('0' + (v/d)%10)
		if i > 0 {
			d *= 10
		}
	}
	return string(buf)
}

func buildSID(count int, auth uint64, subs []uint32) []byte {
	b := []byte{1, byte(count), byte(auth >> 40), byte(auth >> 32), byte(auth >> 24), byte(auth >> 16), byte(auth >> 8), byte(auth)}
	for _, s := range subs {
		b = append(b, byte(s), byte(s>>8), byte(s>>16), byte(s>>24))
	}
	return b
}

func refSIDString(auth uint64, subs []uint32) string {
	s := "S-1-" + refDecimal(auth)
	for _, x := range subs {
		s += "-" + refDecimal(uint64(x))
	}
	return s
}

// Structure for every sub-authority count 0..15: single-digit values keep the digit-count case split trivial,
// so the dash/ordering structure is decided for all counts.
func H_C16_sid_structure() {
	count := vParam("count")
	auth := uint64(vU8("auth"))
	vAssume(auth < 10)
	subs := make([]uint32, count)
	for i := range subs {
		subs[i] = uint32(vU8(subName(i)))
		vAssume(subs[i] < 10)
	}
	// history: another SID with the same sub-authorities under a different authority was parsed before (the text depends
	// on the bytes handed in, not on what was parsed earlier)
	earlier := uint64(vU8("earlier.auth"))
	vAssume(earlier < 10 && earlier != auth)
	_ = ParseSIDFromBytes(buildSID(count, earlier, subs))
	raw := buildSID(count, auth, subs)
	keep := append([]byte{}, raw...)
	got := ParseSIDFromBytes(raw)
	// the buffer is the caller's (an LDAP entry's own attribute storage): parsing reads it only, so a second parse agrees
	vCheck(vBytesEq(raw, keep), "sid/input-buffer-unchanged")
	vCheck(vStrEq(ParseSIDFromBytes(raw), got), "sid/second-parse-of-the-same-buffer-agrees")
	// one-digit values: the reference needs no digit-count case split
	want := "S-1-" + string([]byte{'0' + byte(auth)})
	for _, x := range subs {
		want += "-" + string([]byte{'0' + byte(x)})
	}
	vCheck(vStrEq(got, want), "sid/structure")
	vCover("end")
}

func subName(i int) string { return "sub" + string(rune('a'+i)) }

// Values over the full range (48-bit authority below 2^32 per the oracle sheet, 32-bit sub-authorities) for small counts.
func H_C16_sid_values() {
	count := vParam("count")
	auth := uint64(vU32("auth"))
	subs := make([]uint32, count)
	for i := range subs {
		subs[i] = vU32(subName(i))
	}
	got := ParseSIDFromBytes(buildSID(count, auth, subs))
	vCheck(vStrEq(got, refSIDString(auth, subs)), "sid/values")
	vCover("end")
}

// Byte order of the authority: 48-bit big-endian, all six bytes significant.
func H_C16_sid_authority48() {
	auth := uint64(vU16("authhi"))<<32 | uint64(vU32("authlo"))
	got := ParseSIDFromBytes(buildSID(0, auth, nil))
	vCheck(vStrEq(got, "S-1-"+refDecimal(auth)), "sid/authority-48-bit-decimal")
	vCover("end")
}

// DN: RDN sequence of k components; types DC / CN / OU / O; values without ',' '\' '=' ; result = dot-join of the DC values in order.
func H_C16_dn() {
	k := vParam("k")
	vlen := vParam("vlen")
	dn := ""
	want := ""
	first := true
	for i := 0; i < k; i++ {
		ty := vChoice("type"+string(rune('0'+i)), 4)
		val := vString("val"+string(rune('0'+i)), vlen)
		for j := 0; j < len(val); j++ {
			vAssume(val[j] != ',' && val[j] != '\\' && val[j] != '=')
		}
		prefix := [4]string{"DC=", "CN=", "OU=", "O="}[ty]
		if i > 0 {
			dn += ","
		}
		dn += prefix + val
		if ty != 0 {
			// special characters inside a value are escaped with a backslash in the form Active Directory emits
			// (RFC 4514): they are part of the value and neither end the RDN nor start a new one
			dn += [4]string{"", "\\\\", "\\,DC=x", "\\\\\\,DC=y\\\\"}[vParam("esc")]
		}
		if ty == 0 {
			if !first {
				want += "."
			}
			want += val
			first = false
		}
	}
	got := GetDomainFromDistinguishedName(dn)
	vCheck(vStrEq(got, want), "dn/domain-is-dot-join-of-DC-values")
	vCover("end")
}

// History independence: a truncated (rejected) SID handed to the parser first must not influence the text of the next,
// well-formed one.
func H_C16_sid_after_rejected_input() {
	bad := buildSID(3, uint64(vU8("bad.auth")), []uint32{uint32(vU8("bad.sub"))}) // announces 3 sub-authorities, carries 1
	first := ParseSIDFromBytes(bad)
	vCheck(first == "", "sid/truncated-input-rejected")
	auth := uint64(vU8("auth"))
	vAssume(auth < 10)
	sub := uint32(vU8("sub"))
	vAssume(sub < 10)
	got := ParseSIDFromBytes(buildSID(1, auth, []uint32{sub}))
	want := "S-1-" + string([]byte{'0' + byte(auth)}) + "-" + string([]byte{'0' + byte(sub)})
	vCheck(vStrEq(got, want), "sid/text-independent-of-earlier-calls")
	vCover("end")
}
