package ldap

import "time"

// C15 — LDAP timestamps (100 ns ticks since 1601) and negative-interval durations.

// digits builds a decimal string of n symbolic digits (first digit non-zero when n > 1) and its value by Horner's rule.
func symDecimal(name string, n int) (string, uint64) {
	s := vString(name, n)
	v := uint64(0)
	for i := 0; i < n; i++ {
		vAssume(s[i] >= '0' && s[i] <= '9')
		v = v*10 + uint64(s[i]-'0')
	}
	if n > 1 {
		vAssume(s[0] != '0')
	}
	return s, v
}

func H_C15_ldap_timestamp_to_unix() {
	n := vParam("digits")
	s, v := symDecimal("ts", n)
	if n == 19 && vParam("neg") == 0 {
		vAssume(v <= 9223372036854775807)
	}
	ticks := int64(v)
	if vParam("neg") == 1 {
		// negative tick counts (down to the 'never' sentinel -0x8000000000000000) lie before 1970: the answer is 0
		if n == 19 {
			vAssume(v <= 9223372036854775808)
		}
		vCheck(ConvertLDAPTimeStampToUnixTimeStamp("-"+s) == 0, "ldap/timestamp/negative-is-zero")
		vCover("end")
		return
	}
	got := ConvertLDAPTimeStampToUnixTimeStamp(s)
	if ticks < UnixTimestampStart {
		vCheck(got == 0, "ldap/timestamp/before-1970-is-zero")
	} else {
		vCheck(got == ticks/10000000-11644473600, "ldap/timestamp/seconds-exact")
	}
	vCover("end")
}

func H_C15_ldap_unix_to_timestamp() {
	sec := vI64("sec")
	nsec := vI64("nsec")
	vAssume(sec >= -11644473600 && sec <= 910692730085)
	vAssume(nsec >= 0 && nsec < 1000000000)
	got := ConvertUnixTimeStampToLDAPTimeStamp(time.Unix(sec, nsec))
	vCheck(got == (sec+11644473600)*10000000, "ldap/unix-to-timestamp/exact")
	vCover("end")
}

func H_C15_ldap_duration() {
	n := vParam("digits")
	neg := vParam("neg") == 1
	s, v := symDecimal("dur", n)
	if neg {
		if n == 19 {
			vAssume(v <= 9223372036854775808)
		}
		s = "-" + s
	} else if n == 19 {
		vAssume(v <= 9223372036854775807)
	}
	got := ConvertLDAPDurationToSeconds(s)
	// |value| / 10^7 in unbounded arithmetic: the magnitude always fits in uint64
	vCheck(got == int64(v/10000000), "ldap/duration/magnitude-seconds-exact")
	vCover("end")
}

func H_C15_ldap_duration_inverse() {
	secs := vI64("secs")
	vAssume(secs >= 0 && secs <= 922337203685) // ticks fit in int64
	s := ConvertSecondsToLDAPDuration(secs)
	vCheck(ConvertLDAPDurationToSeconds(s) == secs, "ldap/duration/inverse")
	vCover("end")
}

// Boundary instants as concrete values: the executor evaluates concrete floating-point and other unmodelled arithmetic
// natively, so that an implementation which leaves integer arithmetic is decided on exactly the instants where rounding shows.
var c15instants = [12][2]int64{
	{-11644473600, 0},         // 1601-01-01
	{-11644473600, 100},       // first tick
	{-1, 999999900},           // last tick before 1970
	{0, 0},                    // 1970
	{-9223372037, 145224200},  // int64-nanosecond lower limit (1677)
	{9223372036, 854775800},   // int64-nanosecond upper limit (2262)
	{103633084800, 0},         // about year 5254
	{103633084801, 100},       // just past it, odd tick count
	{127174492801, 0},         // 6000-01-01 00:00:01
	{253402300799, 999999900}, // 9999-12-31 23:59:59.9999999
	{910692730085, 477580700}, // 30828-09-14 02:48:05.4775807: tick count 2^63-1
	{910692730084, 999999900},
}

func H_C15_ldap_unix_to_timestamp_samples() {
	c := c15instants[vParam("sample")]
	got := ConvertUnixTimeStampToLDAPTimeStamp(time.Unix(c[0], c[1]))
	vCheck(got == (c[0]+11644473600)*10000000, "ldap/unix-to-timestamp/boundary-instants-exact")
	// and back (whole seconds; instants before 1970 map to 0 by the function's contract)
	back := ConvertLDAPTimeStampToUnixTimeStamp(refDecimalI(got))
	if c[0] >= 0 {
		vCheck(back == c[0], "ldap/unix-to-timestamp/boundary-instants-round-trip")
	} else {
		vCheck(back == 0, "ldap/unix-to-timestamp/boundary-instants-before-1970-give-0")
	}
	vCover("end")
}

func refDecimalI(v int64) string {
	if v == 0 {
		return "0"
	}
	neg := v < 0
	u := uint64(v)
	if neg {
		u = -u
	}
	var b []byte
	for u > 0 {
		b = append([]byte{byte('0' + u%10)}, b...)
		u /= 10
	}
	if neg {
		return "-" + string(b)
	}
	return string(b)
}
