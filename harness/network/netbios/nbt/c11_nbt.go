package nbt

import (
	"io"
	"net"
	"runtime"
	"sync"
	"time"
)

// C11 — NBT session framing (RFC 1002 4.3.1): TYPE(1) FLAGS(1; bit 0 = length extension) LENGTH(2, big endian).
// The peer is a scripted net.Conn: Read delivers the stream in arbitrary chunk sizes and ends at the cut.

type scriptConn struct {
	in     []byte // bytes the peer sends (stream ends after them: EOF)
	pos    int
	reads  int
	out    []byte // bytes written by the library
	writes int
	maxChk int
}

func (c *scriptConn) Read(p []byte) (int, error) {
	if c.pos >= len(c.in) {
		return 0, io.EOF
	}
	if len(p) == 0 {
		return 0, nil
	}
	avail := len(c.in) - c.pos
	if len(p) < avail {
		avail = len(p)
	}
	k := avail
	if c.maxChk > 0 && c.reads < 8 {
		// arbitrary segmentation: 1..min(avail,maxChk) bytes per read
		lim := avail
		if lim > c.maxChk {
			lim = c.maxChk
		}
		k = 1 + vChoice(chunkName(c.reads), lim)
	}
	c.reads++
	copy(p, c.in[c.pos:c.pos+k])
	c.pos += k
	return k, nil
}

func chunkName(i int) string {
	return "chunk" + string(rune('0'+i))
}

func (c *scriptConn) Write(p []byte) (int, error) {
	c.out = append(c.out, p...)
	c.writes++
	return len(p), nil
}
func (c *scriptConn) Close() error                       { return nil }
func (c *scriptConn) LocalAddr() net.Addr                { return nil }
func (c *scriptConn) RemoteAddr() net.Addr               { return nil }
func (c *scriptConn) SetDeadline(t time.Time) error      { return nil }
func (c *scriptConn) SetReadDeadline(t time.Time) error  { return nil }
func (c *scriptConn) SetWriteDeadline(t time.Time) error { return nil }

// the transport comes from the constructor and is handed the scripted connection instead of dialling
func c11transport(c net.Conn) *NBTTransport {
	n := NewNBTTransport()
	n.conn = c
	return n
}

// Send: every payload of length L is framed with the 17-bit length, or refused when it cannot be framed.
func H_C11_send() {
	L := vParam("L")
	payload := make([]byte, L)
	if L > 0 {
		payload[0] = vU8("first")
		payload[L-1] = vU8("last")
	}
	c := &scriptConn{}
	n := c11transport(c)
	_, err := n.Send(payload)
	if L > 0x1FFFF {
		vCheck(err != nil, "send/refuse-oversize")
		vCheck(len(c.out) == 0, "send/refuse-oversize-nothing-written")
		vCover("end")
		return
	}
	vCheck(err == nil, "send/accepted")
	vCheck(len(c.out) == 4+L, "send/frame-length")
	if len(c.out) >= 4 {
		vCheck(c.out[0] == 0x00, "send/type")
		vCheck(c.out[1] == byte((L>>16)&1), "send/flags-extension-bit")
		vCheck(c.out[2] == byte(L>>8), "send/length-hi")
		vCheck(c.out[3] == byte(L), "send/length-lo")
	}
	if len(c.out) == 4+L {
		vCheck(vBytesEq(c.out[4:], payload), "send/body")
	}
	vCover("end")
}

// Receive: the peer stream is hdr(4 symbolic bytes) || body (m bytes), cut after `cut` bytes, in arbitrary chunks.
func H_C11_receive() {
	m := vParam("m")
	cut := vParam("cut")
	stream := make([]byte, 4+m)
	hdr := vBytes("hdr", 4)
	// the declared length is split into concrete high parts (instance parameters) and a symbolic low byte,
	// so that every instance has at most 256 buffer sizes
	vAssume(hdr[1]&1 == byte(vParam("ext")))
	vAssume(hdr[2] == byte(vParam("hi")))
	copy(stream, hdr)
	small := m
	if small > 6 {
		small = 6
	}
	copy(stream[4:], vBytes("body", small)) // the first bytes of the body are symbolic, the rest zero
	if m > 6 {
		stream[4+m-1] = vU8("lastbyte")
	}
	if cut > len(stream) {
		cut = len(stream)
	}
	c := &scriptConn{in: stream[:cut], maxChk: vParam("chunk")}
	n := c11transport(c)
	got, err := n.Receive()
	declared := int(stream[1]&1)<<16 | int(stream[2])<<8 | int(stream[3])
	if err == nil {
		// a returned message is exactly the declared frame, fully present in the stream
		vCheck(stream[0] == 0x00, "receive/type")
		vCheck(len(got) == declared, "receive/length-is-declared-17-bit-length")
		vCheck(cut >= 4+len(got), "receive/no-fabricated-bytes")
		if cut >= 4+len(got) && len(got) <= m {
			vCheck(vBytesEq(got, stream[4:4+len(got)]), "receive/body")
		}
		vCover("received")
	} else {
		// an error is only allowed when the frame is not a complete session message
		complete := stream[0] == 0x00
		if complete {
			complete = cut >= 4 && cut >= 4+declared
		}
		vCheck(!complete, "receive/complete-frame-not-rejected")
		vCover("error")
	}
	vCover("end")
}

// Two frames back to back: boundaries are preserved.
func H_C11_two_frames() {
	a, b := vParam("a"), vParam("b")
	pa, pb := vBytes("pa", a), vBytes("pb", b)
	var stream []byte
	stream = append(stream, 0, 0, byte(a>>8), byte(a))
	stream = append(stream, pa...)
	stream = append(stream, 0, 0, byte(b>>8), byte(b))
	stream = append(stream, pb...)
	c := &scriptConn{in: stream, maxChk: vParam("chunk")}
	n := c11transport(c)
	g1, e1 := n.Receive()
	vCheck(e1 == nil, "two/first-ok")
	vCheck(vBytesEq(g1, pa), "two/first-body")
	g2, e2 := n.Receive()
	vCheck(e2 == nil, "two/second-ok")
	vCheck(vBytesEq(g2, pb), "two/second-body")
	_, e3 := n.Receive()
	vCheck(e3 != nil, "two/then-eof")
	vCover("end")
}

// Two messages sent over one transport: the second frame's header describes the second message only (no header state
// survives from the first Send), and the receiving side gets both messages back.
func H_C11_two_sends() {
	a, b := vParam("a"), vParam("b")
	pa, pb := make([]byte, a), make([]byte, b)
	if a > 0 {
		pa[0], pa[a-1] = vU8("a.first"), vU8("a.last")
	}
	if b > 0 {
		pb[0], pb[b-1] = vU8("b.first"), vU8("b.last")
	}
	c := &scriptConn{}
	n := c11transport(c)
	_, e1 := n.Send(pa)
	_, e2 := n.Send(pb)
	vCheck(e1 == nil && e2 == nil, "sends/accepted")
	vCheck(len(c.out) == 8+a+b, "sends/two-frames-on-the-wire")
	if len(c.out) == 8+a+b {
		h := c.out[4+a : 8+a]
		vCheck(h[0] == 0 && h[1] == byte((b>>16)&1) && h[2] == byte(b>>8) && h[3] == byte(b), "sends/second-header-describes-the-second-message")
		r := c11transport(&scriptConn{in: c.out})
		g1, r1 := r.Receive()
		g2, r2 := r.Receive()
		vCheck(r1 == nil && r2 == nil, "sends/both-received")
		if r1 == nil && r2 == nil {
			vCheck(vBytesEq(g1, pa) && vBytesEq(g2, pb), "sends/received-equal-sent")
		}
	}
	vCover("end")
}

// yieldConn is a connection on which the sender is preempted after every Write call (the point where the operating system
// serialises writers on a real socket): another goroutine's Write may come next on the wire.
type yieldConn struct{ scriptConn }

func (c *yieldConn) Write(p []byte) (int, error) {
	n, err := c.scriptConn.Write(p)
	runtime.Gosched()
	return n, err
}

// Two goroutines send over one transport (one schedule: each sender is preempted at every Write). The peer receives two
// messages, each exactly one of the two payloads: frames of different senders are never spliced.
func H_C11_concurrent_sends() {
	runtime.GOMAXPROCS(1)
	a, b := vParam("a"), vParam("b")
	pa, pb := make([]byte, a), make([]byte, b)
	if a > 0 {
		pa[0], pa[a-1] = vU8("a.first"), vU8("a.last")
	}
	if b > 0 {
		pb[0], pb[b-1] = vU8("b.first"), vU8("b.last")
	}
	c := &yieldConn{}
	n := c11transport(c)
	var wg sync.WaitGroup
	wg.Add(2)
	go func() {
		n.Send(pa)
		wg.Done()
	}()
	go func() {
		n.Send(pb)
		wg.Done()
	}()
	wg.Wait()
	vCheck(len(c.out) == 8+a+b, "concurrent-sends/two-frames-on-the-wire")
	r := c11transport(&scriptConn{in: c.out})
	g1, r1 := r.Receive()
	g2, r2 := r.Receive()
	vCheck(r1 == nil && r2 == nil, "concurrent-sends/both-received")
	if r1 == nil && r2 == nil {
		vCheck(vOr(vAnd(vBytesEq(g1, pa), vBytesEq(g2, pb)), vAnd(vBytesEq(g1, pb), vBytesEq(g2, pa))), "concurrent-sends/each-message-is-one-of-the-payloads")
	}
	vCover("end")
}
