package nbtns

// C07 — NBTNSPacket.Unmarshal behind the first name: a well-formed first-level encoded name (34 bytes) is fixed, every
// header word and every byte after the name is arbitrary, so the question / resource-record field decoders are reached
// without the path explosion of arbitrary label structures.
func H_C07_NBTNSPacket_shaped() {
	n := vParam("n")
	hdr := vBytes("header", 12)
	// keep the section counts small: each count is 0 or 1 (larger counts only repeat the same decoder)
	for _, i := range []int{4, 6, 8, 10} {
		vAssume(hdr[i] == 0)
		vAssume(hdr[i+1] <= 1)
	}
	name := []byte{32}
	for i := 0; i < 16; i++ {
		name = append(name, 'E', 'B') // 'A' x16
	}
	name = append(name, 0)
	data := append(append([]byte{}, hdr...), name...)
	data = append(data, vBytes("rest", n)...)
	p := &NBTNSPacket{}
	p.Unmarshal(data)
	vCover("end")
}
