package nbtns

import (
	"net"
	"time"
)

// C17 — the name table as an atomic map: one inductive step from an arbitrary table satisfying the invariant.
// Universe: 2 names x 3 addresses. Histories of any length follow by induction on the number of operations.

var c17names = [2]string{"ALPHA", "BRAVO"}
var c17addrs = [3]net.IP{{10, 0, 0, 1}, {10, 0, 0, 2}, {10, 0, 0, 3}}

// model record
type c17rec struct {
	present bool
	typ     NameType
	status  NameStatus
	owners  []int // indices into c17addrs, in slice order
	ttl     time.Time
	refresh time.Duration
}

// a record is either long expired or far from expiry (the clock is an arbitrary instant in between)
func c17time(tag string) time.Time {
	if vChoice(tag, 2) == 0 {
		return time.Unix(-1000, 0)
	}
	return time.Unix(20000000000, 0)
}

// arbitrary record for name i: absent, or unique with one owner, or group with a non-empty set of distinct owners
func c17arbitrary(i int, rich bool) c17rec {
	tag := "r" + string(rune('0'+i))
	var r c17rec
	shape := 0
	if rich {
		shape = vChoice(tag+"shape", 11) // 0 absent, 1..3 unique owner k, 4..10 group subsets
	} else {
		shape = vChoice(tag+"shape", 3) * 4 // 0 absent, 4 group{0}, 8 -> group {0,1}... kept small
	}
	if shape == 0 {
		return r
	}
	r.present = true
	if rich {
		r.status = NameStatus(vChoice(tag+"status", 3))
	}
	r.ttl = c17time(tag + "ttl")
	r.refresh = time.Hour
	if shape <= 3 {
		r.typ = Unique
		r.owners = []int{shape - 1}
		return r
	}
	r.typ = Group
	set := shape - 3 // 1..7 bitmask
	order := 0
	if set != 1 && set != 2 && set != 4 {
		order = vChoice(tag+"order", 2)
	}
	for k := 0; k < 3; k++ {
		j := k
		if order == 1 {
			j = 2 - k // owners may appear in any order; two orders are explored
		}
		if set&(1<<uint(j)) != 0 {
			r.owners = append(r.owners, j)
		}
	}
	return r
}

func c17build(recs [2]c17rec) *NetBIOSNameServer {
	s := NewNetBIOSNameServer(false)
	for i, r := range recs {
		if !r.present {
			continue
		}
		nr := &NameRecord{Name: c17names[i], Type: r.typ, Status: r.status, TTL: r.ttl, RefreshInterval: r.refresh}
		for _, o := range r.owners {
			nr.Owners = append(nr.Owners, append(net.IP{}, c17addrs[o]...))
		}
		s.names[c17names[i]] = nr
	}
	return s
}

func c17index(owners []int, o int) int {
	for i, x := range owners {
		if x == o {
			return i
		}
	}
	return -1
}

// compare the table with the model; id prefixes the obligation keys
func c17same(s *NetBIOSNameServer, recs [2]c17rec, id string) {
	for i, r := range recs {
		nr, ok := s.names[c17names[i]]
		vCheck(ok == r.present, id+"/presence")
		if !ok || !r.present {
			continue
		}
		vCheck(nr.Name == c17names[i], id+"/invariant/key-equals-record-name")
		vCheck(nr.Type == r.typ, id+"/type")
		vCheck(nr.Status == r.status, id+"/status")
		vCheck(len(nr.Owners) == len(r.owners), id+"/owner-count")
		if len(nr.Owners) == len(r.owners) {
			for k, o := range r.owners {
				vCheck(nr.Owners[k].Equal(c17addrs[o]), id+"/owners")
			}
		}
		// invariant: unique => exactly one owner; group => at least one, pairwise distinct
		if nr.Type == Unique {
			vCheck(len(nr.Owners) == 1, id+"/invariant/unique-has-exactly-one-owner")
		} else {
			vCheck(len(nr.Owners) >= 1, id+"/invariant/group-has-an-owner")
			for a := 0; a < len(nr.Owners); a++ {
				for b := a + 1; b < len(nr.Owners); b++ {
					vCheck(!nr.Owners[a].Equal(nr.Owners[b]), id+"/invariant/group-owners-distinct")
				}
			}
		}
	}
	vCheck(len(s.names) <= 2, id+"/no-foreign-records")
}

func H_C17_step() {
	rich := vParam("target") // which name gets the full range of pre-states
	var recs [2]c17rec
	recs[0] = c17arbitrary(0, rich == 0)
	recs[1] = c17arbitrary(1, rich == 1)
	s := c17build(recs)
	ni := vChoice("name", 2)
	name := c17names[ni]
	oi := vChoice("owner", 3)
	owner := append(net.IP{}, c17addrs[oi]...)
	if vChoice("ownerform", 2) == 1 {
		// the same IPv4 address in its 16-byte form (what net.ParseIP returns): addresses are compared as addresses
		owner = net.IP{0, 0, 0, 0, 0, 0, 0, 0, 0, 0, 0xff, 0xff, owner[0], owner[1], owner[2], owner[3]}
	}
	// a result handed out earlier must not change under later updates
	earlier, _, qerr := s.QueryName(name)
	var snapshot []int
	for _, o := range recs[ni].owners {
		snapshot = append(snapshot, o)
	}
	before := time.Now()
	op := vParam("op")
	r := &recs[ni]
	switch op {
	case 0: // register
		typ := NameType(vChoice("type", 2))
		ttl := 2 * time.Hour
		err := s.RegisterName(name, typ, owner, ttl)
		switch {
		case !r.present:
			vCheck(err == nil, "register/new-name-accepted")
			*r = c17rec{present: true, typ: typ, status: Active, owners: []int{oi}, refresh: ttl}
			nr := s.names[name]
			if nr != nil {
				vCheck(!nr.TTL.Before(before) && nr.TTL.Before(time.Unix(20000000000, 0)), "register/ttl-set-from-the-clock")
				vCheck(nr.RefreshInterval == ttl, "register/refresh-interval")
				r.ttl = nr.TTL
			}
		case r.typ == Group && typ == Group:
			vCheck(err == nil, "register/group-join-accepted")
			if c17index(r.owners, oi) < 0 {
				r.owners = append(r.owners, oi)
				nr := s.names[name]
				if nr != nil {
					vCheck(!nr.TTL.Before(before) && nr.TTL.Before(time.Unix(20000000000, 0)), "register/group-join-ttl-set-from-the-clock")
					r.ttl = nr.TTL
				}
			}
		default:
			vCheck(err != nil, "register/unique-conflict-refused")
		}
	case 1: // query
		got, typ, err := s.QueryName(name)
		if r.present && r.status == Active {
			vCheck(err == nil, "query/active-name-found")
			vCheck(typ == r.typ, "query/type")
			vCheck(len(got) == len(r.owners), "query/owner-count")
			if len(got) == len(r.owners) {
				for k, o := range r.owners {
					vCheck(got[k].Equal(c17addrs[o]), "query/owners")
				}
			}
			// the result is a slice of its own: writing through it must not reach the table
			if len(got) > 0 {
				got[0] = net.IP{9, 9, 9, 9}
			}
		} else {
			vCheck(err != nil, "query/inactive-or-missing-name-not-found")
			vCheck(len(got) == 0, "query/no-owners-handed-out-with-an-error")
		}
	case 2: // release
		err := s.ReleaseName(name, owner)
		switch {
		case !r.present:
			vCheck(err != nil, "release/missing-name-refused")
		case r.typ == Group:
			if k := c17index(r.owners, oi); k >= 0 {
				vCheck(err == nil, "release/group-member-accepted")
				r.owners = append(append([]int{}, r.owners[:k]...), r.owners[k+1:]...)
				if len(r.owners) == 0 {
					*r = c17rec{}
				}
			} else {
				vCheck(err != nil, "release/non-member-refused")
			}
		default:
			if r.owners[0] == oi {
				vCheck(err == nil, "release/owner-accepted")
				*r = c17rec{}
			} else {
				vCheck(err != nil, "release/non-owner-refused")
			}
		}
	case 3: // refresh
		err := s.RefreshName(name, owner)
		if r.present && c17index(r.owners, oi) >= 0 {
			vCheck(err == nil, "refresh/owner-accepted")
			nr := s.names[name]
			if nr != nil {
				vCheck(!nr.TTL.Before(before) && nr.TTL.Before(time.Unix(20000000000, 0)), "refresh/ttl-set-from-the-clock")
				r.ttl = nr.TTL
			}
		} else {
			vCheck(err != nil, "refresh/non-owner-or-missing-refused")
		}
	case 4: // conflict marking
		err := s.MarkNameConflict(name)
		if r.present {
			vCheck(err == nil, "conflict/accepted")
			r.status = Conflict
		} else {
			vCheck(err != nil, "conflict/missing-name-refused")
		}
	default: // expiry
		s.CleanExpiredNames()
		after := time.Now()
		for i := range recs {
			if !recs[i].present {
				continue
			}
			_, still := s.names[c17names[i]]
			if recs[i].ttl.Before(before) {
				vCheck(!still, "expiry/expired-record-removed")
			}
			if !recs[i].ttl.Before(after) {
				vCheck(still, "expiry/live-record-kept")
			}
			if !still {
				recs[i] = c17rec{}
			}
		}
	}
	for i := range recs {
		if recs[i].present {
			if nr := s.names[c17names[i]]; nr != nil {
				vCheck(nr.TTL.Equal(recs[i].ttl), "post/ttl-unchanged-unless-specified")
				vCheck(nr.RefreshInterval == recs[i].refresh, "post/refresh-interval-unchanged-unless-specified")
			}
		}
	}
	c17same(s, recs, "post")
	// no aliasing: the earlier query result still shows the owners of that moment
	if qerr == nil {
		vCheck(len(earlier) == len(snapshot), "alias/earlier-result-length-unchanged")
		if len(earlier) == len(snapshot) {
			for k, o := range snapshot {
				vCheck(earlier[k].Equal(c17addrs[o]), "alias/earlier-result-unchanged")
			}
		}
	}
	vCover("end")
}

// R_C17_race is a native-only concurrent driver (never executed symbolically): all six operations from several
// goroutines on one table. It is run under `go test -race` to confirm a lock-discipline violation found by the
// symbolic lock monitor.
func R_C17_race() {
	s := NewNetBIOSNameServer(false)
	done := make(chan bool)
	for g := 0; g < 4; g++ {
		go func(g int) {
			for i := 0; i < 300; i++ {
				name := c17names[(i+g)%2]
				ip := c17addrs[(i+g)%3]
				s.RegisterName(name, NameType(i%2), ip, time.Hour)
				s.QueryName(name)
				s.RefreshName(name, ip)
				s.MarkNameConflict(name)
				s.CleanExpiredNames()
				s.ReleaseName(name, ip)
			}
			done <- true
		}(g)
	}
	for g := 0; g < 4; g++ {
		<-done
	}
}
