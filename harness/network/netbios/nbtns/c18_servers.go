package nbtns

import (
	"io"
	"net"
	"runtime"
	"time"
)

// C18 — NBNS servers: every response carries the request's transaction id, and every opcode is routed to the
// handler RFC 1002 assigns it (OPCODE = bits 14..11 of the flags word: 0 query, 5 registration, 6 release,
// 7 WACK, 8 refresh). Routing is observed through its effect on the name table and the response code.

const (
	c18Query        = 0
	c18Registration = 5
	c18Release      = 6
	c18Refresh      = 8
)

var c18ip = []byte{10, 1, 2, 3}

func c18request(op int) (*NBTNSPacket, uint16) {
	id := vU16("txid")
	other := vU16("flagbits") & 0x070F // NM_FLAGS without the group bit, RCODE: free; R bit and group bit clear
	flags := uint16(op)<<11 | other
	name := &NetBIOSName{Name: "ALPHA"}
	p := &NBTNSPacket{Header: NBTNSHeader{TransactionID: id, Flags: flags, Questions: 1, Answers: 1}}
	p.Questions = append(p.Questions, NBTNSQuestion{Name: name, Type: 0x20, Class: 1})
	p.Answers = append(p.Answers, NBTNSResourceRecord{Name: name, Type: 0x20, Class: 1, TTL: 3600, RDLength: 4, RData: append([]byte{}, c18ip...)})
	return p, id
}

// c18judge checks the response and the table effect for opcode op. pre: whether ALPHA was registered (unique, owner c18ip) before.
func c18judge(op int, pre bool, table *NetBIOSNameServer, raw []byte, id uint16, tag string) {
	var resp NBTNSPacket
	_, err := resp.Unmarshal(raw)
	vCheck(err == nil, tag+"/response-parses")
	if err != nil {
		return
	}
	vCheck(resp.Header.TransactionID == id, tag+"/response-carries-request-transaction-id")
	vCheck(resp.Header.Flags&FlagResponse != 0, tag+"/response-bit-set")
	rcode := resp.Header.Flags & 0x000F
	_, present := table.names["ALPHA"]
	switch op {
	case c18Query:
		if pre {
			vCheck(rcode == 0 && len(resp.Answers) == 1, tag+"/query-routed-to-query-handler")
			if len(resp.Answers) == 1 {
				vCheck(vBytesEq(resp.Answers[0].RData, c18ip), tag+"/query-answer-is-the-owner")
			}
		} else {
			vCheck(rcode == RcodeNameError, tag+"/query-routed-to-query-handler")
		}
		vCheck(present == pre, tag+"/query-leaves-table-unchanged")
	case c18Registration:
		vCheck(present, tag+"/registration-routed-to-registration-handler")
		if !pre {
			vCheck(rcode == 0, tag+"/registration-of-free-name-succeeds")
		}
	case c18Release:
		if pre {
			vCheck(!present && rcode == 0, tag+"/release-routed-to-release-handler")
		} else {
			vCheck(rcode == RcodeServerError, tag+"/release-routed-to-release-handler")
		}
	case c18Refresh:
		if pre {
			vCheck(present && rcode == 0, tag+"/refresh-routed-to-refresh-handler")
		} else {
			vCheck(rcode == RcodeServerError, tag+"/refresh-routed-to-refresh-handler")
		}
	default:
		vCheck(rcode == RcodeNotImpl, tag+"/unassigned-opcode-answered-not-implemented")
		vCheck(present == pre, tag+"/unassigned-opcode-leaves-table-unchanged")
	}
}

// The servers are obtained from the library's constructors (whatever they initialise stays initialised) and then given
// the harness's socket / listener and name table instead of being started on a port of their own.
func c18newUDP(table *NetBIOSNameServer, conn *net.UDPConn) *UDPServer {
	s, err := NewUDPServer("127.0.0.1:0", table)
	vAssume(err == nil && s != nil)
	s.conn = conn
	return s
}

func c18newServer(table *NetBIOSNameServer, conn *net.UDPConn) *Server {
	s, err := NewServer("127.0.0.1:0", false)
	vAssume(err == nil && s != nil)
	s.nbtns = table
	s.listener = conn
	return s
}

func c18newTCP(table *NetBIOSNameServer, l net.Listener) *TCPServer {
	s, err := NewTCPServer("127.0.0.1:0", table)
	vAssume(err == nil && s != nil)
	if l != nil {
		s.listener = l
	}
	return s
}

func c18table(pre bool) *NetBIOSNameServer {
	t := NewNetBIOSNameServer(false)
	if pre {
		t.names["ALPHA"] = &NameRecord{Name: "ALPHA", Type: Unique, Status: Active, Owners: []net.IP{append(net.IP{}, c18ip...)},
			TTL: time.Unix(20000000000, 0), RefreshInterval: time.Hour}
	}
	return t
}

// TCP: the request -> response function of the stream server
func H_C18_tcp_message() {
	op, pre := vParam("op"), vParam("pre") == 1
	req, id := c18request(op)
	raw, err := req.Marshal()
	vCheck(err == nil, "tcp/request-marshals")
	table := c18table(pre)
	s := c18newTCP(table, nil)
	out, err := s.handleMessage(raw)
	vCheck(err == nil, "tcp/handled")
	if err == nil {
		c18judge(op, pre, table, out, id, "tcp")
	}
	vCover("end")
}

// scripted stream for the TCP connection handler: 2-byte big-endian length framing in both directions
type c18conn struct {
	in    []byte
	pos   int
	out   []byte
	chunk int // > 0: a Read delivers at most this many bytes (TCP segmentation)
}

type c18addr struct{}

func (c18addr) Network() string { return "tcp" }
func (c18addr) String() string  { return "peer:1" }

func (c *c18conn) Read(p []byte) (int, error) {
	if c.pos >= len(c.in) {
		return 0, io.EOF
	}
	avail := c.in[c.pos:]
	if c.chunk > 0 && len(avail) > c.chunk {
		avail = avail[:c.chunk]
	}
	n := copy(p, avail)
	c.pos += n
	return n, nil
}
func (c *c18conn) Write(p []byte) (int, error)        { c.out = append(c.out, p...); return len(p), nil }
func (c *c18conn) Close() error                       { return nil }
func (c *c18conn) LocalAddr() net.Addr                { return c18addr{} }
func (c *c18conn) RemoteAddr() net.Addr               { return c18addr{} }
func (c *c18conn) SetDeadline(t time.Time) error      { return nil }
func (c *c18conn) SetReadDeadline(t time.Time) error  { return nil }
func (c *c18conn) SetWriteDeadline(t time.Time) error { return nil }

// two framed requests on one connection: each gets its own framed response, in order, with its own transaction id
func H_C18_tcp_connection() {
	op1, op2 := vParam("op1"), vParam("op2")
	table := c18table(false)
	s := c18newTCP(table, nil)
	var stream []byte
	var ids [2]uint16
	for i, op := range []int{op1, op2} {
		id := vU16("txid" + string(rune('0'+i)))
		ids[i] = id
		name := &NetBIOSName{Name: "ALPHA"}
		p := &NBTNSPacket{Header: NBTNSHeader{TransactionID: id, Flags: uint16(op) << 11, Questions: 1, Answers: 1}}
		p.Questions = append(p.Questions, NBTNSQuestion{Name: name, Type: 0x20, Class: 1})
		p.Answers = append(p.Answers, NBTNSResourceRecord{Name: name, Type: 0x20, Class: 1, TTL: 3600, RDLength: 4, RData: append([]byte{}, c18ip...)})
		raw, _ := p.Marshal()
		stream = append(stream, byte(len(raw)>>8), byte(len(raw)))
		stream = append(stream, raw...)
	}
	c := &c18conn{in: stream, chunk: vParam("chunk")}
	s.wg.Add(1)
	s.handleConnection(c)
	// parse the response stream
	off := 0
	for i := 0; i < 2; i++ {
		vCheck(off+2 <= len(c.out), "tcpconn/response-length-prefix-present")
		if off+2 > len(c.out) {
			return
		}
		l := int(c.out[off])<<8 | int(c.out[off+1])
		vCheck(off+2+l <= len(c.out), "tcpconn/response-length-prefix-matches")
		if off+2+l > len(c.out) {
			return
		}
		var resp NBTNSPacket
		_, err := resp.Unmarshal(c.out[off+2 : off+2+l])
		vCheck(err == nil, "tcpconn/response-parses")
		if err == nil {
			vCheck(resp.Header.TransactionID == ids[i], "tcpconn/response-order-and-transaction-id")
		}
		off += 2 + l
	}
	vCheck(off == len(c.out), "tcpconn/no-extra-bytes")
	vCover("end")
}

// UDP: handlePacket on a loopback socket pair
func H_C18_udp_packet() {
	op, pre := vParam("op"), vParam("pre") == 1
	req, id := c18request(op)
	raw, err := req.Marshal()
	vCheck(err == nil, "udp/request-marshals")
	table := c18table(pre)
	srv, err1 := net.ListenUDP("udp", &net.UDPAddr{IP: net.IPv4(127, 0, 0, 1)})
	cli, err2 := net.ListenUDP("udp", &net.UDPAddr{IP: net.IPv4(127, 0, 0, 1)})
	if err1 != nil || err2 != nil {
		return // no loopback available natively: nothing can be observed
	}
	defer srv.Close()
	defer cli.Close()
	s := c18newUDP(table, srv)
	s.handlePacket(raw, cli.LocalAddr().(*net.UDPAddr))
	buf := make([]byte, 600)
	cli.SetReadDeadline(time.Now().Add(2 * time.Second))
	n, _, err := cli.ReadFromUDP(buf)
	vCheck(err == nil, "udp/a-response-is-sent")
	if err == nil {
		c18judge(op, pre, table, buf[:n], id, "udp")
	}
	vCover("end")
}

// buffer isolation: two datagrams handled one after the other from the same receive buffer, the way serve() hands
// buf[:n] to handlePacket; the first handler must have finished with (or copied) its bytes before the buffer is reused.
// Decided here for the sequential schedule only: each response answers its own request.
func H_C18_udp_two_datagrams() {
	table := c18table(false)
	srv, err1 := net.ListenUDP("udp", &net.UDPAddr{IP: net.IPv4(127, 0, 0, 1)})
	cli, err2 := net.ListenUDP("udp", &net.UDPAddr{IP: net.IPv4(127, 0, 0, 1)})
	if err1 != nil || err2 != nil {
		return
	}
	defer srv.Close()
	defer cli.Close()
	s := c18newUDP(table, srv)
	shared := make([]byte, MaxUDPSize)
	var ids [2]uint16
	for i := 0; i < 2; i++ {
		ids[i] = vU16("txid" + string(rune('0'+i)))
		name := &NetBIOSName{Name: "ALPHA"}
		p := &NBTNSPacket{Header: NBTNSHeader{TransactionID: ids[i], Flags: 0, Questions: 1}}
		p.Questions = append(p.Questions, NBTNSQuestion{Name: name, Type: 0x20, Class: 1})
		raw, _ := p.Marshal()
		n := copy(shared, raw)
		s.handlePacket(shared[:n], cli.LocalAddr().(*net.UDPAddr))
	}
	buf := make([]byte, 600)
	for i := 0; i < 2; i++ {
		cli.SetReadDeadline(time.Now().Add(2 * time.Second))
		n, _, err := cli.ReadFromUDP(buf)
		vCheck(err == nil, "udp2/response-sent")
		if err != nil {
			return
		}
		var resp NBTNSPacket
		_, err = resp.Unmarshal(buf[:n])
		vCheck(err == nil, "udp2/response-parses")
		if err == nil {
			vCheck(resp.Header.TransactionID == ids[i], "udp2/each-response-carries-its-own-request-id")
		}
	}
	vCover("end")
}

// receive loops: two datagrams are queued before the loop starts, so the loop reads the second one before the handler of
// the first has run (goroutines run when their creator blocks; natively: GOMAXPROCS(1)). Each request must still be
// answered from its own bytes: the two responses carry the two different transaction ids.
func c18twoQueries(cli *net.UDPConn, to *net.UDPAddr) [2]uint16 {
	var ids [2]uint16
	ids[0], ids[1] = vU16("txid0"), vU16("txid1")
	vAssume(ids[0] != ids[1])
	for i := 0; i < 2; i++ {
		p := &NBTNSPacket{Header: NBTNSHeader{TransactionID: ids[i], Flags: 0, Questions: 1}}
		p.Questions = append(p.Questions, NBTNSQuestion{Name: &NetBIOSName{Name: "ALPHA"}, Type: 0x20, Class: 1})
		raw, _ := p.Marshal()
		cli.WriteToUDP(raw, to)
	}
	return ids
}

func c18twoResponses(cli *net.UDPConn, ids [2]uint16, tag string) {
	buf := make([]byte, 600)
	var seen [2]bool
	for i := 0; i < 2; i++ {
		cli.SetReadDeadline(time.Now().Add(2 * time.Second))
		n, _, err := cli.ReadFromUDP(buf)
		vCheck(err == nil, tag+"/a-response-per-request")
		if err != nil {
			return
		}
		var resp NBTNSPacket
		_, err = resp.Unmarshal(buf[:n])
		vCheck(err == nil, tag+"/response-parses")
		if err != nil {
			return
		}
		k := -1
		if resp.Header.TransactionID == ids[0] {
			k = 0
		} else if resp.Header.TransactionID == ids[1] {
			k = 1
		}
		vCheck(k >= 0, tag+"/response-id-is-a-request-id")
		if k >= 0 {
			vCheck(!seen[k], tag+"/each-request-answered-from-its-own-bytes")
			seen[k] = true
		}
	}
}

func H_C18_udp_serve_isolation() {
	runtime.GOMAXPROCS(1)
	table := c18table(true)
	srv, err1 := net.ListenUDP("udp", &net.UDPAddr{IP: net.IPv4(127, 0, 0, 1)})
	cli, err2 := net.ListenUDP("udp", &net.UDPAddr{IP: net.IPv4(127, 0, 0, 1)})
	if err1 != nil || err2 != nil {
		return
	}
	defer cli.Close()
	s := c18newUDP(table, srv)
	ids := c18twoQueries(cli, srv.LocalAddr().(*net.UDPAddr))
	s.wg.Add(1)
	go s.serve()
	time.Sleep(300 * time.Millisecond)
	c18twoResponses(cli, ids, "udp-serve")
	close(s.quit)
	srv.Close()
	vCover("end")
}

func H_C18_server_serve_isolation() {
	runtime.GOMAXPROCS(1)
	table := c18table(true)
	srv, err1 := net.ListenUDP("udp", &net.UDPAddr{IP: net.IPv4(127, 0, 0, 1)})
	cli, err2 := net.ListenUDP("udp", &net.UDPAddr{IP: net.IPv4(127, 0, 0, 1)})
	if err1 != nil || err2 != nil {
		return
	}
	defer cli.Close()
	s := c18newServer(table, srv)
	ids := c18twoQueries(cli, srv.LocalAddr().(*net.UDPAddr))
	s.wg.Add(1)
	go s.serve()
	time.Sleep(300 * time.Millisecond)
	c18twoResponses(cli, ids, "server-serve")
	close(s.quit)
	srv.Close()
	vCover("end")
}

// the third server variant (server.go): the same routing obligations as the UDP and TCP servers
func H_C18_server_packet() {
	op, pre := vParam("op"), vParam("pre") == 1
	req, id := c18request(op)
	raw, err := req.Marshal()
	vCheck(err == nil, "server/request-marshals")
	table := c18table(pre)
	srv, err1 := net.ListenUDP("udp", &net.UDPAddr{IP: net.IPv4(127, 0, 0, 1)})
	cli, err2 := net.ListenUDP("udp", &net.UDPAddr{IP: net.IPv4(127, 0, 0, 1)})
	if err1 != nil || err2 != nil {
		return
	}
	defer srv.Close()
	defer cli.Close()
	s := c18newServer(table, srv)
	s.handlePacket(raw, cli.LocalAddr().(*net.UDPAddr))
	buf := make([]byte, 600)
	cli.SetReadDeadline(time.Now().Add(2 * time.Second))
	n, _, err := cli.ReadFromUDP(buf)
	vCheck(err == nil, "server/a-response-is-sent")
	if err == nil {
		c18judge(op, pre, table, buf[:n], id, "server")
	}
	vCover("end")
}

// two clients, one request each, queued before the loop starts: every response goes to the address its request came
// from (the address travels with the request, not with the loop), and nothing else arrives there.
func c18twoClients(srv *net.UDPConn, tag string, start func()) {
	var clis [2]*net.UDPConn
	for i := range clis {
		c, err := net.ListenUDP("udp", &net.UDPAddr{IP: net.IPv4(127, 0, 0, 1)})
		if err != nil {
			return
		}
		defer c.Close()
		clis[i] = c
	}
	ids := [2]uint16{vU16("txid0"), vU16("txid1")}
	vAssume(ids[0] != ids[1])
	for i := 0; i < 2; i++ {
		p := &NBTNSPacket{Header: NBTNSHeader{TransactionID: ids[i], Flags: 0, Questions: 1}}
		p.Questions = append(p.Questions, NBTNSQuestion{Name: &NetBIOSName{Name: "ALPHA"}, Type: 0x20, Class: 1})
		raw, _ := p.Marshal()
		clis[i].WriteToUDP(raw, srv.LocalAddr().(*net.UDPAddr))
	}
	start()
	time.Sleep(300 * time.Millisecond)
	buf := make([]byte, 600)
	for i := 0; i < 2; i++ {
		clis[i].SetReadDeadline(time.Now().Add(time.Second))
		n, _, err := clis[i].ReadFromUDP(buf)
		vCheck(err == nil, tag+"/each-client-gets-a-response")
		if err != nil {
			continue
		}
		var resp NBTNSPacket
		_, err = resp.Unmarshal(buf[:n])
		vCheck(err == nil && resp.Header.TransactionID == ids[i], tag+"/response-goes-to-the-client-that-asked")
		clis[i].SetReadDeadline(time.Now().Add(200 * time.Millisecond))
		_, _, err = clis[i].ReadFromUDP(buf)
		vCheck(err != nil, tag+"/no-foreign-response")
	}
}

func H_C18_udp_serve_two_clients() {
	runtime.GOMAXPROCS(1)
	table := c18table(true)
	srv, err := net.ListenUDP("udp", &net.UDPAddr{IP: net.IPv4(127, 0, 0, 1)})
	if err != nil {
		return
	}
	s := c18newUDP(table, srv)
	c18twoClients(srv, "udp-serve-2", func() {
		s.wg.Add(1)
		go s.serve()
	})
	close(s.quit)
	srv.Close()
	vCover("end")
}

func H_C18_server_serve_two_clients() {
	runtime.GOMAXPROCS(1)
	table := c18table(true)
	srv, err := net.ListenUDP("udp", &net.UDPAddr{IP: net.IPv4(127, 0, 0, 1)})
	if err != nil {
		return
	}
	s := c18newServer(table, srv)
	c18twoClients(srv, "server-serve-2", func() {
		s.wg.Add(1)
		go s.serve()
	})
	close(s.quit)
	srv.Close()
	vCover("end")
}
