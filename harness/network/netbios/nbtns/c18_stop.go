package nbtns

import (
	"errors"
	"io"
	"net"
	"sync"
	"time"
)

// C18 — stopping: with connections open / a receive loop waiting, Stop returns and nothing is left running. Decided under
// the one schedule of the executor (see DESIGN.md §8.7): goroutines run when the running code blocks; time-outs fire only
// when nothing else can run. Natively the same harness runs with real goroutines and a 3 s observation time-out.

type c18peer struct{ id int }

func (c18peer) Network() string  { return "tcp" }
func (p c18peer) String() string { return "peer:" + string(rune('0'+p.id)) }

// a connection whose Read blocks until data arrives or the connection is closed (deadlines are not honoured: an idle
// peer stays idle)
type c18blockConn struct {
	id      int
	data    chan []byte
	closed  chan struct{}
	once    sync.Once
	pending []byte
	outMu   sync.Mutex
	out     []byte
}

func newC18blockConn(id int) *c18blockConn {
	return &c18blockConn{id: id, data: make(chan []byte, 4), closed: make(chan struct{})}
}

func (c *c18blockConn) Read(p []byte) (int, error) {
	if len(c.pending) == 0 {
		select {
		case b, ok := <-c.data:
			if !ok {
				return 0, io.EOF
			}
			c.pending = b
		case <-c.closed:
			return 0, errors.New("use of closed network connection")
		}
	}
	n := copy(p, c.pending)
	c.pending = c.pending[n:]
	return n, nil
}
func (c *c18blockConn) Write(p []byte) (int, error) {
	c.outMu.Lock()
	c.out = append(c.out, p...)
	c.outMu.Unlock()
	return len(p), nil
}
func (c *c18blockConn) Close() error                       { c.once.Do(func() { close(c.closed) }); return nil }
func (c *c18blockConn) LocalAddr() net.Addr                { return c18addr{} }
func (c *c18blockConn) RemoteAddr() net.Addr               { return c18peer{c.id} }
func (c *c18blockConn) SetDeadline(t time.Time) error      { return nil }
func (c *c18blockConn) SetReadDeadline(t time.Time) error  { return nil }
func (c *c18blockConn) SetWriteDeadline(t time.Time) error { return nil }
func (c *c18blockConn) isClosed() bool {
	select {
	case <-c.closed:
		return true
	default:
		return false
	}
}

type c18listener struct {
	accept chan net.Conn
	closed chan struct{}
	once   sync.Once
}

func (l *c18listener) Accept() (net.Conn, error) {
	select {
	case c := <-l.accept:
		return c, nil
	case <-l.closed:
		return nil, errors.New("use of closed network connection")
	}
}
func (l *c18listener) Close() error   { l.once.Do(func() { close(l.closed) }); return nil }
func (l *c18listener) Addr() net.Addr { return c18addr{} }

// TCP: `conns` clients are connected and idle, the first one has additionally been served one request.
func H_C18_tcp_stop() {
	n := vParam("conns")
	table := c18table(true)
	l := &c18listener{accept: make(chan net.Conn, 4), closed: make(chan struct{})}
	s := c18newTCP(table, l)
	s.wg.Add(1)
	go s.serve()
	var conns []*c18blockConn
	for i := 0; i < n; i++ {
		c := newC18blockConn(i)
		conns = append(conns, c)
		l.accept <- c
	}
	if n > 0 && vParam("served") == 1 {
		req, _ := c18request(c18Query)
		raw, _ := req.Marshal()
		conns[0].data <- append([]byte{byte(len(raw) >> 8), byte(len(raw))}, raw...)
	}
	time.Sleep(100 * time.Millisecond) // accepted; handlers are waiting for the next request
	done := make(chan struct{})
	go func() {
		s.Stop()
		close(done)
	}()
	select {
	case <-done:
		for _, c := range conns {
			vCheck(c.isClosed(), "tcp-stop/every-connection-closed")
		}
	case <-time.After(3 * time.Second):
		vCheck(false, "tcp-stop/Stop-returns-with-open-connections")
	}
	vCover("end")
}

// UDP servers: Stop while the receive loop is waiting (optionally after one request has been answered).
func H_C18_udp_stop() {
	table := c18table(true)
	srv, err1 := net.ListenUDP("udp", &net.UDPAddr{IP: net.IPv4(127, 0, 0, 1)})
	cli, err2 := net.ListenUDP("udp", &net.UDPAddr{IP: net.IPv4(127, 0, 0, 1)})
	if err1 != nil || err2 != nil {
		return
	}
	defer cli.Close()
	done := make(chan struct{})
	variant := vParam("server")
	var stop func()
	if variant == 0 {
		s := c18newUDP(table, srv)
		s.wg.Add(1)
		go s.serve()
		stop = s.Stop
	} else {
		s := c18newServer(table, srv)
		s.wg.Add(1)
		go s.serve()
		stop = s.Stop
	}
	if vParam("served") == 1 {
		req, id := c18request(c18Query)
		raw, _ := req.Marshal()
		cli.WriteToUDP(raw, srv.LocalAddr().(*net.UDPAddr))
		buf := make([]byte, 600)
		cli.SetReadDeadline(time.Now().Add(2 * time.Second))
		k, _, err := cli.ReadFromUDP(buf)
		vCheck(err == nil, "udp-stop/request-answered-before-stop")
		if err == nil {
			var resp NBTNSPacket
			_, err = resp.Unmarshal(buf[:k])
			vCheck(err == nil && resp.Header.TransactionID == id, "udp-stop/answer-carries-the-request-id")
		}
	} else {
		time.Sleep(100 * time.Millisecond)
	}
	go func() {
		stop()
		close(done)
	}()
	select {
	case <-done:
	case <-time.After(3 * time.Second):
		vCheck(false, "udp-stop/Stop-returns")
	}
	vCover("end")
}
