package nbtns

import (
	"net"
	"sync"
	"time"
)

// C17 — two operations run by two goroutines behave like one of their two sequential orders (each operation is one atomic
// step). Symbolically the two goroutines run under the schedule that preempts a goroutine before every lock acquire and
// after every release, i.e. the other goroutine's critical sections are placed between any two critical sections of one
// operation; natively the pair is repeated with real goroutines.

type c17op struct{ kind, ni, oi, typ int }

type c17result struct {
	ok     bool
	owners []net.IP
	typ    NameType
}

func c17apply(s *NetBIOSNameServer, o c17op) c17result {
	name := c17names[o.ni]
	owner := append(net.IP{}, c17addrs[o.oi]...)
	switch o.kind {
	case 0:
		return c17result{ok: s.RegisterName(name, NameType(o.typ), owner, 2*time.Hour) == nil}
	case 1:
		got, typ, err := s.QueryName(name)
		return c17result{ok: err == nil, owners: got, typ: typ}
	case 2:
		return c17result{ok: s.ReleaseName(name, owner) == nil}
	case 3:
		return c17result{ok: s.RefreshName(name, owner) == nil}
	case 4:
		return c17result{ok: s.MarkNameConflict(name) == nil}
	default:
		s.CleanExpiredNames()
		return c17result{ok: true}
	}
}

type c17snap struct {
	present bool
	typ     NameType
	status  NameStatus
	owners  []net.IP
	expired bool // TTL class: long expired (the pre-state's) or set from the clock / far in the future
}

func c17snapshot(s *NetBIOSNameServer) (out [2]c17snap, foreign bool) {
	for i := range c17names {
		nr, ok := s.names[c17names[i]]
		if !ok {
			continue
		}
		out[i] = c17snap{present: true, typ: nr.Type, status: nr.Status, expired: nr.TTL.Before(time.Unix(0, 0))}
		for _, o := range nr.Owners {
			out[i].owners = append(out[i].owners, append(net.IP{}, o...))
		}
	}
	return out, len(s.names) > 2
}

func c17sameOwners(a, b []net.IP) bool {
	if len(a) != len(b) {
		return false
	}
	for i := range a {
		if !a[i].Equal(b[i]) {
			return false
		}
	}
	return true
}

func c17sameOutcome(s1, s2 [2]c17snap, r1, r2 [2]c17result) bool {
	for i := 0; i < 2; i++ {
		a, b := s1[i], s2[i]
		if a.present != b.present {
			return false
		}
		if a.present && (a.typ != b.typ || a.status != b.status || a.expired != b.expired || !c17sameOwners(a.owners, b.owners)) {
			return false
		}
		if r1[i].ok != r2[i].ok || !c17sameOwners(r1[i].owners, r2[i].owners) || (r1[i].ok && r1[i].typ != r2[i].typ) {
			return false
		}
	}
	return true
}

// the small universe: name 0 absent, unique with owner 0, or a group of owners 0 and 1; active or in conflict; expired or not
func c17small(i int) c17rec {
	tag := "r" + string(rune('0'+i))
	switch vChoice(tag+"shape", 3) {
	case 0:
		return c17rec{}
	case 1:
		return c17rec{present: true, typ: Unique, status: NameStatus(vChoice(tag+"status", 2)), owners: []int{0}, ttl: c17time(tag + "ttl"), refresh: time.Hour}
	}
	return c17rec{present: true, typ: Group, status: NameStatus(vChoice(tag+"status", 2)), owners: []int{0, 1}, ttl: c17time(tag + "ttl"), refresh: time.Hour}
}

func H_C17_pair() {
	var recs [2]c17rec
	if vParam("universe") == 1 {
		recs[0] = c17arbitrary(0, true)
		recs[1] = c17arbitrary(1, false)
	} else {
		recs[0] = c17small(0)
		recs[1] = c17rec{present: true, typ: Unique, status: Active, owners: []int{2}, ttl: c17time("r1ttl"), refresh: time.Hour}
	}
	ops := [2]c17op{{kind: vParam("opA")}, {kind: vParam("opB")}}
	for g := range ops {
		tag := string(rune('a' + g))
		if vParam("universe") == 1 {
			ops[g].ni = vChoice(tag+".name", 2)
			ops[g].oi = vChoice(tag+".owner", 3)
		} else {
			ops[g].oi = vChoice(tag+".owner", 2) * 2 // address 0 (an owner in every non-empty small record) or 2 (never one)
		}
		if ops[g].kind == 0 {
			ops[g].typ = vChoice(tag+".type", 2)
		}
	}
	t0 := time.Now()
	// the two sequential orders
	var seq [2][2]c17result
	var seqSnap [2][2]c17snap
	for order := 0; order < 2; order++ {
		s := c17build(recs)
		first, second := order, 1-order
		seq[order][first] = c17apply(s, ops[first])
		seq[order][second] = c17apply(s, ops[second])
		seqSnap[order], _ = c17snapshot(s)
	}
	rounds := vNativeRounds(3000)
	for round := 0; round < rounds; round++ {
		s := c17build(recs)
		var got [2]c17result
		var wg sync.WaitGroup
		start := make(chan struct{})
		wg.Add(2)
		for g := 0; g < 2; g++ {
			go func(g int) {
				<-start
				got[g] = c17apply(s, ops[g])
				wg.Done()
			}(g)
		}
		close(start)
		wg.Wait()
		snap, foreign := c17snapshot(s)
		// the whole run takes far less than the two hours a fresh registration lasts
		vAssume(time.Now().Unix()-t0.Unix() < 3600)
		vCheck(!foreign, "pair/no-foreign-records")
		vCheck(c17sameOutcome(snap, seqSnap[0], got, seq[0]) || c17sameOutcome(snap, seqSnap[1], got, seq[1]), "pair/outcome-is-one-of-the-two-sequential-orders")
	}
	vCover("end")
}
