package nbtns

// C10 — NetBIOS first-level encoding (RFC 1001 14.1) and NBNS packets (RFC 1002 4.2).

func symName(tag string, n int) string {
	s := vString(tag, n)
	if n > 0 {
		vAssume(s[0] != '*') // the library's documented validity predicate
	}
	return s
}

// rtrim returns s without trailing spaces (names are compared modulo the space padding)
func rtrim(s string) string {
	for len(s) > 0 && s[len(s)-1] == ' ' {
		s = s[:len(s)-1]
	}
	return s
}

func symLabel(tag string, n int) string {
	s := vString(tag, n)
	for i := 0; i < n; i++ {
		c := s[i]
		vAssume(vOr(vAnd(c >= 'a', c <= 'z'), vOr(vAnd(c >= 'A', c <= 'Z'), vAnd(c >= '0', c <= '9'))))
	}
	return s
}

func H_C10_name() {
	n := vParam("n")
	name := symName("name", n)
	scope := ""
	if l := vParam("scope1"); l > 0 {
		scope = symLabel("s1", l)
		if l2 := vParam("scope2"); l2 > 0 {
			scope += "." + symLabel("s2", l2)
			// further labels (a scope is a domain name of any number of labels)
			for k := 0; k < vParam("morelabels"); k++ {
				scope += "." + string(rune('k'+k)) // concrete: the per-character validity test forks once per symbolic character
			}
		}
	}
	nb := &NetBIOSName{Name: name, ScopeID: scope}
	enc, err := nb.FirstLevelEncode()
	vCheck(err == nil, "name/encode-ok")
	vCheck(len(enc) >= 32, "name/encoded-at-least-32-characters")
	if err != nil || len(enc) < 32 {
		return
	}
	// RFC 1001 14.1: byte i (space padded to 16) -> 'A'+high nibble, 'A'+low nibble
	for i := 0; i < 16; i++ {
		b := byte(' ')
		if i < n {
			b = name[i]
		}
		vCheck(enc[2*i] == 'A'+(b>>4), "name/high-nibble-character")
		vCheck(enc[2*i+1] == 'A'+(b&0x0F), "name/low-nibble-character")
	}
	if scope == "" {
		vCheck(len(enc) == 32, "name/no-scope-32-characters")
	} else {
		vCheck(vStrEq(enc[32:], "."+scope), "name/scope-appended")
	}
	dec, err := FirstLevelDecode(enc)
	vCheck(err == nil, "name/decode-ok")
	if err == nil {
		vCheck(vStrEq(dec.Name, rtrim(name)), "name/decode-of-encode-equals-name-modulo-padding")
		vCheck(vStrEq(dec.ScopeID, scope), "name/scope-preserved")
	}
	vCover("end")
}

func H_C10_name_too_long() {
	nb := &NetBIOSName{Name: symName("name", 17)}
	_, err := nb.FirstLevelEncode()
	vCheck(err != nil, "name/17-bytes-rejected")
	vCover("end")
}

func symRR(tag string, nameLen, rdLen int) NBTNSResourceRecord {
	return NBTNSResourceRecord{Name: &NetBIOSName{Name: symName(tag+"n", nameLen)}, Type: vU16(tag + "t"), Class: vU16(tag + "c"),
		TTL: vU32(tag + "ttl"), RDLength: uint16(rdLen), RData: vBytes(tag+"rd", rdLen)}
}

func rrEqual(a, b *NBTNSResourceRecord, want string, id string) {
	vCheck(vStrEq(a.Name.Name, want), id+"/name")
	vCheck(a.Type == b.Type && a.Class == b.Class, id+"/type-class")
	vCheck(a.TTL == b.TTL, id+"/ttl")
	vCheck(a.RDLength == b.RDLength, id+"/rdlength")
	vCheck(vBytesEq(a.RData, b.RData), id+"/rdata")
}

func H_C10_packet() {
	nq, na, ns, nr := vParam("q"), vParam("an"), vParam("ns"), vParam("ar")
	nameLen, rdLen := vParam("name"), vParam("rd")
	p := &NBTNSPacket{}
	p.Header = NBTNSHeader{TransactionID: vU16("id"), Flags: vU16("flags"), Questions: uint16(nq), Answers: uint16(na), Authority: uint16(ns), Additional: uint16(nr)}
	// optional scope identifier on the question name: one label of `scope` octets (1..63 are legal, RFC 1002 4.1)
	qscope := ""
	if l := vParam("scope"); l > 0 {
		if l <= 4 {
			qscope = symLabel("qs", l)
		} else {
			// long labels: two symbolic characters, the rest fixed (the per-character checks fork once per symbolic character)
			qscope = symLabel("qs", 2)
			for len(qscope) < l {
				qscope += "x"
			}
		}
	}
	for i := 0; i < nq; i++ {
		p.Questions = append(p.Questions, NBTNSQuestion{Name: &NetBIOSName{Name: symName("qn", nameLen), ScopeID: qscope}, Type: vU16("qt"), Class: vU16("qc")})
	}
	for i := 0; i < na; i++ {
		p.Answers = append(p.Answers, symRR("an", nameLen, rdLen))
	}
	for i := 0; i < ns; i++ {
		p.Authority = append(p.Authority, symRR("ns", nameLen, rdLen))
	}
	for i := 0; i < nr; i++ {
		p.Additional = append(p.Additional, symRR("ar", nameLen, rdLen))
	}
	raw, err := p.Marshal()
	vCheck(err == nil, "packet/marshal-ok")
	// header: six 16-bit big-endian words (RFC 1002 4.2.1.1)
	vCheck(len(raw) >= 12, "packet/header-size")
	if len(raw) >= 12 {
		vCheck(raw[0] == byte(p.Header.TransactionID>>8) && raw[1] == byte(p.Header.TransactionID), "packet/wire/transaction-id-big-endian")
		vCheck(raw[2] == byte(p.Header.Flags>>8) && raw[3] == byte(p.Header.Flags), "packet/wire/flags-big-endian")
		vCheck(raw[5] == byte(nq) && raw[7] == byte(na) && raw[9] == byte(ns) && raw[11] == byte(nr), "packet/wire/counts")
	}
	// a result already returned is not disturbed by a later Marshal of another packet (no storage shared between results)
	if err == nil {
		keep := append([]byte{}, raw...)
		p2 := &NBTNSPacket{Header: NBTNSHeader{TransactionID: vU16("later.id"), Flags: vU16("later.flags"), Questions: 1}}
		p2.Questions = append(p2.Questions, NBTNSQuestion{Name: &NetBIOSName{Name: "LATER"}, Type: 0x21, Class: 1})
		_, _ = p2.Marshal()
		vCheck(vBytesEq(raw, keep), "packet/marshal-result-not-disturbed-by-a-later-marshal")
	}
	// the receiver is reused: it already holds an earlier packet (one question, one record per section)
	var d NBTNSPacket
	old := &NetBIOSName{Name: "OLD"}
	d.Header = NBTNSHeader{TransactionID: vU16("prev.id"), Flags: vU16("prev.flags"), Questions: 1, Answers: 1, Authority: 1, Additional: 1}
	d.Questions = []NBTNSQuestion{{Name: old, Type: 0x20, Class: 1}}
	d.Answers = []NBTNSResourceRecord{{Name: old, Type: 0x20, Class: 1, RDLength: 1, RData: []byte{9}}}
	d.Authority = []NBTNSResourceRecord{{Name: old, Type: 0x20, Class: 1}}
	d.Additional = []NBTNSResourceRecord{{Name: old, Type: 0x20, Class: 1}}
	rx := append([]byte{}, raw...)
	n, err := d.Unmarshal(rx)
	vCheck(err == nil, "packet/unmarshal-ok")
	if err != nil {
		return
	}
	// the receive buffer is reused for the next datagram: the decoded packet keeps what was on the wire
	for i := range rx {
		rx[i] ^= 0xFF
	}
	vCheck(n == len(raw), "packet/consumed")
	vCheck(d.Header == p.Header, "packet/header-fields")
	vCheck(len(d.Questions) == nq && len(d.Answers) == na && len(d.Authority) == ns && len(d.Additional) == nr, "packet/section-sizes")
	for i := 0; i < nq && i < len(d.Questions); i++ {
		vCheck(vStrEq(d.Questions[i].Name.Name, rtrim(p.Questions[i].Name.Name)), "packet/question/name")
		vCheck(vStrEq(d.Questions[i].Name.ScopeID, qscope), "packet/question/scope")
		vCheck(d.Questions[i].Type == p.Questions[i].Type && d.Questions[i].Class == p.Questions[i].Class, "packet/question/type-class")
	}
	for i := 0; i < na && i < len(d.Answers); i++ {
		rrEqual(&d.Answers[i], &p.Answers[i], rtrim(p.Answers[i].Name.Name), "packet/answer")
	}
	for i := 0; i < ns && i < len(d.Authority); i++ {
		rrEqual(&d.Authority[i], &p.Authority[i], rtrim(p.Authority[i].Name.Name), "packet/authority")
	}
	for i := 0; i < nr && i < len(d.Additional); i++ {
		rrEqual(&d.Additional[i], &p.Additional[i], rtrim(p.Additional[i].Name.Name), "packet/additional")
	}
	vCover("end")
}

// Independent RFC 1002 4.2.1.2 reading of a packet with one question: NAME is a compressed-name field,
// i.e. label(0x20, 32 characters) [scope labels] 0x00, followed by QUESTION_TYPE and QUESTION_CLASS.
func H_C10_rfc1002_question() {
	nameLen := vParam("name")
	p := &NBTNSPacket{Header: NBTNSHeader{TransactionID: vU16("id"), Flags: vU16("flags"), Questions: 1}}
	q := NBTNSQuestion{Name: &NetBIOSName{Name: symName("qn", nameLen)}, Type: vU16("qt"), Class: vU16("qc")}
	p.Questions = append(p.Questions, q)
	raw, err := p.Marshal()
	vCheck(err == nil, "rfc1002/marshal-ok")
	// what the library actually emits (so that any further drift is noticed): length byte, 32 characters, type, class
	vCheck(len(raw) >= 12+1+32+4, "rfc1002/library-layout/size")
	if len(raw) >= 12+1+32+4 {
		vCheck(raw[12] == 0x20, "rfc1002/first-label-length-0x20")
		for i := 0; i < 16; i++ {
			b := byte(' ')
			if i < nameLen {
				b = q.Name.Name[i]
			}
			vCheck(raw[13+2*i] == 'A'+(b>>4) && raw[14+2*i] == 'A'+(b&0x0F), "rfc1002/encoded-name-characters")
		}
	}
	// RFC parse: after the 33-byte first label the name must be terminated by the root label before type/class
	vCheck(len(raw) == 12+1+32+1+4, "rfc1002/name-terminated-by-root-label/size")
	if len(raw) == 12+1+32+1+4 {
		vCheck(raw[45] == 0x00, "rfc1002/name-terminated-by-root-label")
		vCheck(raw[46] == byte(q.Type>>8) && raw[47] == byte(q.Type) && raw[48] == byte(q.Class>>8) && raw[49] == byte(q.Class), "rfc1002/type-class-after-name")
	} else if len(raw) == 12+1+32+4 {
		vCheck(raw[45] == byte(q.Type>>8) && raw[46] == byte(q.Type) && raw[47] == byte(q.Class>>8) && raw[48] == byte(q.Class), "rfc1002/library-layout/type-class-directly-after-name")
	}
	vCover("end")
}
