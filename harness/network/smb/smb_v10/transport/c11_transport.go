package transport

// C11 — the transport factory: every call yields a transport of its own (its own connection and framing state), so what
// is sent through one transport can only reach that transport's peer.
func H_C11_transport_factory() {
	a := NewTransport("nbt")
	b := NewTransport("NBT")
	c := NewTransport("nbt")
	vCheck(a != nil && b != nil && c != nil, "factory/nbt-transport-available")
	if a != nil && b != nil && c != nil {
		vCheck(a != b && a != c && b != c, "factory/every-call-yields-a-transport-of-its-own")
		vCheck(!a.IsConnected() && !c.IsConnected(), "factory/new-transports-are-unconnected")
	}
	vCheck(NewTransport("no-such-transport") == nil, "factory/unknown-type-refused")
	vCover("end")
}
