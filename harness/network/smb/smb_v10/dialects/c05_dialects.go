package dialects

// C05 — MS-CIFS 2.2.4.52.1: SMB_Data.Bytes.Dialects is an array of SMB_Dialect structures,
// each { UCHAR BufferFormat = 0x02; OEM_STRING DialectString (null-terminated) }.

// c05refDialects is the independent encoder written from the specification.
func c05refDialects(names [][]byte) []byte {
	out := []byte{}
	for _, n := range names {
		out = append(out, 0x02)
		out = append(out, n...)
		out = append(out, 0x00)
	}
	return out
}

func H_C05_dialects() {
	n := vParam("n")
	L := vParam("len")
	names := [][]byte{}
	d := NewDialects()
	for i := 0; i < n; i++ {
		b := vBytes("dialect"+string(rune('a'+i)), L)
		for j := range b {
			vAssume(b[j] != 0)
		}
		names = append(names, b)
		d.AddDialect(string(b))
	}
	ref := c05refDialects(names)
	raw, err := d.Marshal()
	vCheck(err == nil, "C05/dialects/marshal-ok")
	if err != nil {
		return
	}
	vCheck(len(raw) == len(ref), "C05/dialects/one-format-byte-and-one-terminator-per-dialect")
	vCheck(vBytesEq(raw, ref), "C05/dialects/bytes-equal-the-reference-encoding")
	// the reference encoding is accepted and yields the same names
	got := NewDialects()
	got.AddDialect("EARLIER 1.0") // a reused receiver: the result describes the decoded bytes only
	used, err := got.Unmarshal(ref)
	vCheck(err == nil, "C05/dialects/reference-encoding-accepted")
	if err != nil {
		return
	}
	vCheck(used == len(ref), "C05/dialects/reference-encoding-consumed-entirely")
	vCheck(len(got.Dialects) == n, "C05/dialects/decoded-count")
	if len(got.Dialects) == n {
		for i := 0; i < n; i++ {
			vCheck(vBytesEq([]byte(got.Dialects[i]), names[i]), "C05/dialects/decoded-name")
		}
	}
	vCover("end")
}
