package spnego

// C08 — the unexported DER length encoder on its own (a file of its own: see ntlm/c02_ntlm_internal.go).

// C08 — DER definite-length encoding (X.690 8.1.3) used for the GSS-API framing.
func H_C08_encode_length() {
	n := vInt("n")
	vAssume(n >= 0 && n < 1<<31)
	k := vParam("bytes") // expected number of length octets
	lo := []int{0, 128, 256, 65536, 16777216}[k]
	hi := []int{127, 255, 65535, 16777215, 1<<31 - 1}[k]
	vAssume(n >= lo && n <= hi)
	got := encodeLength(n)
	if k == 0 {
		vCheck(len(got) == 1 && got[0] == byte(n), "der-length/short-form")
	} else {
		// the minimal big-endian image of n in k octets (the caller prepends 0x80|k)
		vCheck(len(got) == k, "der-length/long-form-octet-count-minimal")
		if len(got) == k {
			for i := 0; i < k; i++ {
				vCheck(got[i] == byte(n>>uint(8*(k-1-i))), "der-length/long-form-big-endian")
			}
			vCheck(got[0] != 0, "der-length/long-form-no-leading-zero")
		}
	}
	vCover("end")
}
