package ntlm

// C08 — NTLMSSP message structure (MS-NLMP 2.2.1): descriptors (Len, MaxLen, Offset) designate exactly their fields.

func c08le16(b []byte, off int) int { return int(b[off]) | int(b[off+1])<<8 }
func c08le32(b []byte, off int) uint32 {
	return uint32(b[off]) | uint32(b[off+1])<<8 | uint32(b[off+2])<<16 | uint32(b[off+3])<<24
}

// field reads the descriptor at off and returns the designated bytes (nil, false when out of bounds or Len != MaxLen)
func c08field(msg []byte, off int, id string) ([]byte, int, bool) {
	l, ml, o := c08le16(msg, off), c08le16(msg, off+2), int(c08le32(msg, off+4))
	vCheck(l == ml, id+"/maxlen-equals-len")
	vCheck(o <= len(msg) && o+l <= len(msg), id+"/in-bounds")
	if o > len(msg) || o+l > len(msg) {
		return nil, 0, false
	}
	return msg[o : o+l], o, true
}

func c08lowerBytes(b []byte) []byte {
	out := make([]byte, len(b))
	for i := range b {
		out[i] = vIte8(vAnd(b[i] >= 'A', b[i] <= 'Z'), b[i]+32, b[i])
	}
	return out
}

func c08name(tag string, n int) (string, []byte, []byte) {
	s := vString(tag, n)
	var oem, u16 []byte
	for i := 0; i < n; i++ {
		vAssume(s[i] < 0x80)
		oem = append(oem, s[i])
		u16 = append(u16, s[i], 0)
	}
	return s, oem, u16
}

func H_C08_negotiate() {
	unicode := vParam("unicode") == 1
	domain, domOEM, dom16 := c08name("domain", vParam("dlen"))
	ws, wsOEM, ws16 := c08name("ws", vParam("wlen"))
	msg, err := CreateNegotiateMessage(domain, ws, unicode)
	vCheck(err == nil, "negotiate/ok")
	vCheck(len(msg) >= 40, "negotiate/header-size")
	if len(msg) < 40 {
		return
	}
	vCheck(vBytesEq(msg[0:8], []byte("NTLMSSP\x00")), "negotiate/signature")
	vCheck(c08le32(msg, 8) == 1, "negotiate/message-type-1")
	flags := c08le32(msg, 12)
	vCheck((flags&NTLMSSP_NEGOTIATE_UNICODE != 0) == unicode, "negotiate/flag-unicode")
	vCheck((flags&NTLMSSP_NEGOTIATE_OEM != 0) == !unicode, "negotiate/flag-oem")
	vCheck((flags&NTLMSSP_NEGOTIATE_OEM_DOMAIN_SUPPLIED != 0) == (len(domain) > 0), "negotiate/flag-domain-supplied")
	vCheck((flags&NTLMSSP_NEGOTIATE_OEM_WORKSTATION_SUPPLIED != 0) == (len(ws) > 0), "negotiate/flag-workstation-supplied")
	d, do, ok1 := c08field(msg, 16, "negotiate/domain")
	w, wo, ok2 := c08field(msg, 24, "negotiate/workstation")
	if !ok1 || !ok2 {
		return
	}
	vCheck(do >= 40 && wo >= 40, "negotiate/payload-after-header")
	vCheck(do+len(d) <= wo, "negotiate/fields-ordered-non-overlapping")
	vCheck(wo+len(w) == len(msg), "negotiate/no-trailing-bytes")
	if unicode {
		vCheck(vBytesEq(d, dom16), "negotiate/domain-bytes-utf16le")
		vCheck(vBytesEq(w, ws16), "negotiate/workstation-bytes-utf16le")
	} else {
		// OEM names are sent upper-cased: compare case-insensitively
		vCheck(vBytesEq(c08lowerBytes(d), c08lowerBytes(domOEM)), "negotiate/domain-bytes-oem")
		vCheck(vBytesEq(c08lowerBytes(w), c08lowerBytes(wsOEM)), "negotiate/workstation-bytes-oem")
	}
	vCover("end")
}

func H_C08_authenticate() {
	flags := vU32("flags")
	ch := &ChallengeMessage{NegotiateFlags: flags}
	copy(ch.ServerChallenge[:], vBytes("server", 8))
	if tl := vParam("tilen"); tl > 1024 {
		// boundary instance: a target info so large that the payload offsets pass 65535 while every length still fits in
		// 16 bits (contents fixed: only the descriptor arithmetic is of interest here)
		ch.TargetInfo = make([]byte, tl)
	} else {
		ch.TargetInfo = vBytes("ti", tl)
	}
	user, userOEM, user16 := c08name("user", vParam("ulen"))
	domain, domOEM, dom16 := c08name("domain", vParam("dlen"))
	ws, wsOEM, ws16 := c08name("ws", vParam("wlen"))
	pw, _, pw16 := c08name("pw", vParam("plen"))
	msg, err := CreateAuthenticateMessage(ch, user, pw, domain, ws)
	vCheck(err == nil, "authenticate/ok")
	vCheck(len(msg) >= 88, "authenticate/header-size")
	if err != nil || len(msg) < 88 {
		return
	}
	vCheck(vBytesEq(msg[0:8], []byte("NTLMSSP\x00")), "authenticate/signature")
	vCheck(c08le32(msg, 8) == 3, "authenticate/message-type-3")
	vCheck(c08le32(msg, 60) == flags, "authenticate/flags-echo-negotiated-flags")
	names := [6]string{"lm", "nt", "domain", "user", "workstation", "sessionkey"}
	var fields [6][]byte
	var offs [6]int
	for i := 0; i < 6; i++ {
		f, o, ok := c08field(msg, 12+8*i, "authenticate/"+names[i])
		if !ok {
			return
		}
		fields[i], offs[i] = f, o
		vCheck(o >= 88, "authenticate/payload-after-header")
	}
	// payload order: lm, nt, domain, user, workstation, session key; contiguous and non-overlapping
	for i := 0; i+1 < 6; i++ {
		vCheck(offs[i]+len(fields[i]) <= offs[i+1], "authenticate/fields-ordered-non-overlapping")
	}
	vCheck(offs[5]+len(fields[5]) == len(msg), "authenticate/no-trailing-bytes")
	unicode := flags&NTLMSSP_NEGOTIATE_UNICODE != 0
	if unicode {
		vCheck(vBytesEq(fields[3], user16), "authenticate/user-bytes-utf16le")
		vCheck(vBytesEq(c08lowerBytes(fields[2]), c08lowerBytes(dom16)), "authenticate/domain-bytes-utf16le")
		vCheck(vBytesEq(c08lowerBytes(fields[4]), c08lowerBytes(ws16)), "authenticate/workstation-bytes-utf16le")
	} else {
		vCheck(vBytesEq(fields[3], userOEM), "authenticate/user-bytes-oem")
		vCheck(vBytesEq(c08lowerBytes(fields[2]), c08lowerBytes(domOEM)), "authenticate/domain-bytes-oem")
		vCheck(vBytesEq(c08lowerBytes(fields[4]), c08lowerBytes(wsOEM)), "authenticate/workstation-bytes-oem")
	}
	// the designated NT / LM payloads are the responses of C02
	nt := refMD4(pw16)
	if flags&NTLMSSP_NEGOTIATE_EXTENDED_SESSIONSECURITY != 0 {
		upper16 := make([]byte, len(user16))
		for i := range user16 {
			upper16[i] = vIte8(vAnd(user16[i] >= 'a', user16[i] <= 'z'), user16[i]-32, user16[i])
		}
		ntowf := c02hmac(nt[:], upper16, dom16)
		vCheck(len(fields[1]) >= 44, "authenticate/ntlmv2-response-size")
		if len(fields[1]) >= 44 {
			vCheck(vBytesEq(fields[1][:16], c02hmac(ntowf, ch.ServerChallenge[:], fields[1][16:])), "authenticate/nt-payload-verifies-under-NTOWFv2")
		}
		vCheck(len(fields[0]) == 24, "authenticate/lmv2-response-size")
		if len(fields[0]) == 24 {
			vCheck(vBytesEq(fields[0][:16], c02hmac(ntowf, ch.ServerChallenge[:], fields[0][16:])), "authenticate/lm-payload-verifies-under-NTOWFv2")
		}
	} else {
		vCheck(vBytesEq(fields[1], c02DESL(nt[:], ch.ServerChallenge[:])), "authenticate/nt-payload-is-DESL-of-NT-hash")
		vCheck(len(fields[0]) == 24, "authenticate/lm-response-size")
	}
	vCover("end")
}

// CHALLENGE: an independent MS-NLMP encoder builds the message; the parser returns exactly what it carries.
func H_C08_challenge() {
	flags := vU32("flags")
	server := vBytes("server", 8)
	reserved := vBytes("reserved", 8)
	tname := vBytes("tname", vParam("tnlen"))
	ver := vBytes("version", 8)
	npairs := vParam("pairs")
	vlen := vParam("vlen")
	var ti []byte
	var ids [2]uint16
	var vals [2][]byte
	for i := 0; i < npairs; i++ {
		ids[i] = vU16("avid" + string(rune('0'+i)))
		vAssume(ids[i] != 0) // not the end-of-list marker
		if i == 1 {
			vAssume(ids[1] != ids[0])
		}
		vals[i] = vBytes("avval"+string(rune('0'+i)), vlen)
		ti = append(ti, byte(ids[i]), byte(ids[i]>>8), byte(vlen), 0)
		ti = append(ti, vals[i]...)
	}
	ti = append(ti, 0, 0, 0, 0)
	msg := append([]byte{}, []byte("NTLMSSP\x00")...)
	msg = append(msg, 2, 0, 0, 0)
	// payload layout (MS-NLMP does not fix the order of payload fields): 0 = name then info, 1 = info then name,
	// 2 = name only (no target info: the name is the last payload field and ends exactly at the end of the message)
	layout := vParam("layout")
	tnOff, tiOff := 56, 56+len(tname)
	if layout == 1 {
		tiOff, tnOff = 56, 56+len(ti)
	}
	if layout == 2 {
		ti = nil
	}
	// MaxLen may exceed Len (MS-NLMP 2.2.2.x: "MaxLen SHOULD be set equal to Len by the sender and MUST be ignored on receipt")
	slack := vParam("slack")
	msg = append(msg, byte(len(tname)), 0, byte(len(tname)+slack), 0, byte(tnOff), 0, 0, 0)
	msg = append(msg, byte(flags), byte(flags>>8), byte(flags>>16), byte(flags>>24))
	msg = append(msg, server...)
	msg = append(msg, reserved...)
	msg = append(msg, byte(len(ti)), 0, byte(len(ti)+slack), 0, byte(tiOff), 0, 0, 0)
	msg = append(msg, ver...)
	if layout == 1 {
		msg = append(msg, ti...)
		msg = append(msg, tname...)
	} else {
		msg = append(msg, tname...)
		msg = append(msg, ti...)
	}
	c, err := ParseChallengeMessage(msg)
	vCheck(err == nil, "challenge/parses")
	if err != nil {
		return
	}
	vCheck(c.NegotiateFlags == flags, "challenge/flags")
	vCheck(vBytesEq(c.ServerChallenge[:], server), "challenge/server-challenge")
	vCheck(vBytesEq(c.TargetName, tname), "challenge/target-name")
	vCheck(vBytesEq(c.TargetInfo, ti), "challenge/target-info-bytes")
	if flags&NTLMSSP_NEGOTIATE_VERSION != 0 {
		vb, _ := c.Version.Marshal()
		vCheck(vBytesEq(vb, ver), "challenge/version")
	}
	if layout == 2 {
		vCover("end")
		return
	}
	pairs, err := ParseTargetInfo(c.TargetInfo)
	vCheck(err == nil, "challenge/target-info-parses")
	if err == nil {
		vCheck(len(pairs) == npairs, "challenge/pair-count")
		for i := 0; i < npairs; i++ {
			v, ok := pairs[ids[i]]
			vCheck(ok, "challenge/pair-present")
			if ok {
				vCheck(vBytesEq(v, vals[i]), "challenge/pair-value")
			}
		}
	}
	vCover("end")
}

// Answering a challenge leaves the parsed challenge (and the received buffer it was parsed from) as the server sent it:
// target name and target info are read, never written, while the AUTHENTICATE message is built.
func H_C08_challenge_then_answer() {
	flags := vU32("flags")
	if vParam("ess") == 1 {
		flags |= NTLMSSP_NEGOTIATE_EXTENDED_SESSIONSECURITY
	} else {
		flags &^= NTLMSSP_NEGOTIATE_EXTENDED_SESSIONSECURITY
	}
	server := vBytes("server", 8)
	tname := vBytes("tname", vParam("tnlen"))
	val := vBytes("avval", 2)
	ti := []byte{2, 0, 2, 0, val[0], val[1], 0, 0, 0, 0}
	tnOff, tiOff := 56, 56+len(tname)
	if vParam("layout") == 1 {
		tiOff, tnOff = 56, 56+len(ti)
	}
	msg := append([]byte{}, []byte("NTLMSSP\x00")...)
	msg = append(msg, 2, 0, 0, 0)
	msg = append(msg, byte(len(tname)), 0, byte(len(tname)), 0, byte(tnOff), 0, 0, 0)
	msg = append(msg, byte(flags), byte(flags>>8), byte(flags>>16), byte(flags>>24))
	msg = append(msg, server...)
	msg = append(msg, 0, 0, 0, 0, 0, 0, 0, 0)
	msg = append(msg, byte(len(ti)), 0, byte(len(ti)), 0, byte(tiOff), 0, 0, 0)
	msg = append(msg, 0, 0, 0, 0, 0, 0, 0, 0)
	if vParam("layout") == 1 {
		msg = append(msg, ti...)
		msg = append(msg, tname...)
	} else {
		msg = append(msg, tname...)
		msg = append(msg, ti...)
	}
	msg = append(msg, vBytes("trailing", vParam("trail"))...) // bytes after the last payload field belong to the caller too
	received := append([]byte{}, msg...)
	c, err := ParseChallengeMessage(msg)
	vCheck(err == nil, "answer/challenge-parses")
	if err != nil {
		return
	}
	_, err = CreateAuthenticateMessage(c, "user", "pw", "DOM", "WS")
	vCheck(err == nil, "answer/authenticate-ok")
	vCheck(vBytesEq(c.TargetName, tname), "answer/parsed-target-name-unchanged")
	vCheck(vBytesEq(c.TargetInfo, ti), "answer/parsed-target-info-unchanged")
	vCheck(vBytesEq(msg, received), "answer/received-buffer-unchanged")
	vCover("end")
}

// Non-ASCII names in the Unicode character set (concrete samples; flags and challenge symbolic): the user name is carried
// as supplied, domain and workstation as supplied up to letter case (the library upper-cases them as text, never as bytes).
func H_C08_authenticate_unicode_names() {
	flags := vU32("flags") | NTLMSSP_NEGOTIATE_UNICODE
	if vParam("ess") == 1 {
		flags |= NTLMSSP_NEGOTIATE_EXTENDED_SESSIONSECURITY
	} else {
		flags &^= NTLMSSP_NEGOTIATE_EXTENDED_SESSIONSECURITY
	}
	ch := &ChallengeMessage{NegotiateFlags: flags}
	copy(ch.ServerChallenge[:], vBytes("server", 8))
	ch.TargetInfo = vBytes("ti", 4)
	names := []string{"zakladš", "дом", "société", "愛子", "a\U0001D4B7c", "Ωmega"}
	user := names[vParam("user")]
	domain := names[vParam("dom")]
	ws := names[(vParam("dom")+1)%len(names)]
	msg, err := CreateAuthenticateMessage(ch, user, "pw", domain, ws)
	vCheck(err == nil && len(msg) >= 88, "authenticate-unicode/ok")
	if err != nil || len(msg) < 88 {
		return
	}
	fDom, _, ok1 := c08field(msg, 28, "authenticate-unicode/domain")
	fUser, _, ok2 := c08field(msg, 36, "authenticate-unicode/user")
	fWs, _, ok3 := c08field(msg, 44, "authenticate-unicode/workstation")
	if !ok1 || !ok2 || !ok3 {
		return
	}
	vCheck(vBytesEq(fUser, refUTF16LE([]rune(user))), "authenticate-unicode/user-bytes-utf16le-as-supplied")
	vCheck(vBytesEq(fDom, refUTF16LE(c02refUpper(domain))) || vBytesEq(fDom, refUTF16LE([]rune(domain))), "authenticate-unicode/domain-is-the-supplied-text-in-utf16le")
	vCheck(vBytesEq(fWs, refUTF16LE(c02refUpper(ws))) || vBytesEq(fWs, refUTF16LE([]rune(ws))), "authenticate-unicode/workstation-is-the-supplied-text-in-utf16le")
	vCover("end")
}

// CHALLENGE with a target information block on both sides of the signed 16-bit limit (the length field is an unsigned
// 16-bit integer): one AV pair whose value has vlen bytes (first and last symbolic, the rest zero).
func H_C08_challenge_large() {
	vlen := vParam("vlen")
	flags := vU32("flags")
	server := vBytes("server", 8)
	tname := vBytes("tname", 4)
	val := make([]byte, vlen)
	val[0], val[vlen-1] = vU8("first"), vU8("last")
	ti := []byte{2, 0, byte(vlen), byte(vlen >> 8)}
	ti = append(ti, val...)
	ti = append(ti, 0, 0, 0, 0)
	n := len(ti)
	msg := append([]byte{}, []byte("NTLMSSP\x00")...)
	msg = append(msg, 2, 0, 0, 0)
	msg = append(msg, 4, 0, 4, 0, 56, 0, 0, 0)
	msg = append(msg, byte(flags), byte(flags>>8), byte(flags>>16), byte(flags>>24))
	msg = append(msg, server...)
	msg = append(msg, 0, 0, 0, 0, 0, 0, 0, 0)
	msg = append(msg, byte(n), byte(n>>8), byte(n), byte(n>>8), 60, 0, 0, 0)
	msg = append(msg, 0, 0, 0, 0, 0, 0, 0, 0)
	msg = append(msg, tname...)
	msg = append(msg, ti...)
	c, err := ParseChallengeMessage(msg)
	vCheck(err == nil, "challenge-large/parses")
	if err != nil {
		return
	}
	vCheck(vBytesEq(c.TargetName, tname), "challenge-large/target-name")
	vCheck(len(c.TargetInfo) == n, "challenge-large/target-info-length")
	if len(c.TargetInfo) == n {
		vCheck(c.TargetInfo[4] == val[0] && c.TargetInfo[4+vlen-1] == val[vlen-1], "challenge-large/target-info-ends")
	}
	pairs, err := ParseTargetInfo(c.TargetInfo)
	vCheck(err == nil && len(pairs) == 1 && len(pairs[2]) == vlen, "challenge-large/pair-value-length")
	vCover("end")
}
