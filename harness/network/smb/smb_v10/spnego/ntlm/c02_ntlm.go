package ntlm

import (
	"crypto/des"
	"crypto/hmac"
	"crypto/md5"
)

// C02 — the SPNEGO/NTLM package's own response computations against the same MS-NLMP references.

func c02spread(h []byte) []byte {
	k := make([]byte, 8)
	for bit := 0; bit < 56; bit++ {
		b := (h[bit/8] >> uint(7-bit%8)) & 1
		k[bit/7] |= b << uint(7-bit%7)
	}
	return k
}

func c02DESL(k16 []byte, d []byte) []byte {
	padded := append(append([]byte{}, k16...), 0, 0, 0, 0, 0)
	var out []byte
	for i := 0; i < 3; i++ {
		c, _ := des.NewCipher(c02spread(padded[7*i : 7*i+7]))
		blk := make([]byte, 8)
		c.Encrypt(blk, d)
		out = append(out, blk...)
	}
	return out
}

func c02pop(b byte) byte {
	var n byte
	for i := uint(0); i < 8; i++ {
		n += (b >> i) & 1
	}
	return n
}

func c02ascii(tag string, n int) (string, []byte, []byte) {
	s := vString(tag, n)
	var asIs, upper []byte
	for i := 0; i < n; i++ {
		vAssume(s[i] < 0x80)
		asIs = append(asIs, s[i], 0)
		upper = append(upper, vIte8(vAnd(s[i] >= 'a', s[i] <= 'z'), s[i]-32, s[i]), 0)
	}
	return s, asIs, upper
}

func c02hmac(key []byte, parts ...[]byte) []byte {
	h := hmac.New(md5.New, key)
	for _, p := range parts {
		h.Write(p)
	}
	return h.Sum(nil)
}

// The responses inside the AUTHENTICATE message built from a challenge: with extended session security the NT response
// is an NTLMv2 response that verifies under NTOWFv2(password, user, domain-as-supplied) — whatever character set the
// names are sent in (the UNICODE flag only selects the encoding of the name fields, not the key derivation).
func H_C02_ntlm_authenticate_verifies() {
	flags := vU32("flags") | NTLMSSP_NEGOTIATE_EXTENDED_SESSIONSECURITY
	if vParam("unicode") == 1 {
		flags |= NTLMSSP_NEGOTIATE_UNICODE
	} else {
		flags &^= NTLMSSP_NEGOTIATE_UNICODE
	}
	ch := &ChallengeMessage{NegotiateFlags: flags}
	copy(ch.ServerChallenge[:], vBytes("server", 8))
	ch.TargetInfo = vBytes("ti", 4)
	user, _, userUp16 := c02ascii("user", vParam("ulen"))
	domain, dom16, _ := c02ascii("domain", vParam("dlen"))
	ws, _, _ := c02ascii("ws", 2)
	pw, pw16, _ := c02ascii("pw", vParam("plen"))
	msg, err := CreateAuthenticateMessage(ch, user, pw, domain, ws)
	vCheck(err == nil && len(msg) >= 88, "ntlm/authenticate/ok")
	if err != nil || len(msg) < 88 {
		return
	}
	ntResp, _, ok := c08field(msg, 20, "ntlm/authenticate/nt-response")
	if !ok || len(ntResp) < 44 {
		vCheck(false, "ntlm/authenticate/nt-response-is-an-NTLMv2-response")
		return
	}
	nt := refMD4(pw16)
	ntowf := c02hmac(nt[:], userUp16, dom16)
	vCheck(vBytesEq(ntResp[:16], c02hmac(ntowf, ch.ServerChallenge[:], ntResp[16:])), "ntlm/authenticate/NTProofStr-verifies-under-NTOWFv2")
	lmResp, _, ok := c08field(msg, 12, "ntlm/authenticate/lm-response")
	if ok && len(lmResp) == 24 {
		vCheck(vBytesEq(lmResp[:16], c02hmac(ntowf, ch.ServerChallenge[:], lmResp[16:])), "ntlm/authenticate/LMv2-verifies-under-NTOWFv2")
	}
	vCover("end")
}
