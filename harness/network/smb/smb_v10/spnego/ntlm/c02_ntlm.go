package ntlm

import (
	"crypto/des"
	"crypto/hmac"
	"crypto/md5"
)

// C02 — the SPNEGO/NTLM package's own response computations against the same MS-NLMP references.

func c02spread(h []byte) []byte {
	k := make([]byte, 8)
	for bit := 0; bit < 56; bit++ {
		b := (h[bit/8] >> uint(7-bit%8)) & 1
		k[bit/7] |= b << uint(7-bit%7)
	}
	return k
}

func c02DESL(k16 []byte, d []byte) []byte {
	padded := append(append([]byte{}, k16...), 0, 0, 0, 0, 0)
	var out []byte
	for i := 0; i < 3; i++ {
		c, _ := des.NewCipher(c02spread(padded[7*i : 7*i+7]))
		blk := make([]byte, 8)
		c.Encrypt(blk, d)
		out = append(out, blk...)
	}
	return out
}

func c02pop(b byte) byte {
	var n byte
	for i := uint(0); i < 8; i++ {
		n += (b >> i) & 1
	}
	return n
}

func H_C02_ntlm_deskey() {
	key := vBytes("key", 7)
	out, err := createDesKey(key)
	vCheck(err == nil && len(out) == 8, "ntlm/deskey/size")
	if len(out) != 8 {
		return
	}
	want := c02spread(key)
	for i := 0; i < 8; i++ {
		vCheck(out[i]&0xFE == want[i], "ntlm/deskey/seven-key-bits-in-high-positions")
	}
	// last, a recorded finding would otherwise restrict the checks above
	for i := 0; i < 8; i++ {
		vCheck(c02pop(out[i])&1 == 1, "ntlm/deskey/odd-parity")
	}
	vCover("end")
}

func H_C02_ntlm_desencrypt() {
	hash := vBytes("hash", 16)
	ch := vBytes("challenge", 8)
	vCheck(vBytesEq(desEncrypt(hash, ch), c02DESL(hash, ch)), "ntlm/desEncrypt-equals-DESL")
	vCover("end")
}

func c02ascii(tag string, n int) (string, []byte, []byte) {
	s := vString(tag, n)
	var asIs, upper []byte
	for i := 0; i < n; i++ {
		vAssume(s[i] < 0x80)
		asIs = append(asIs, s[i], 0)
		upper = append(upper, vIte8(vAnd(s[i] >= 'a', s[i] <= 'z'), s[i]-32, s[i]), 0)
	}
	return s, asIs, upper
}

func c02hmac(key []byte, parts ...[]byte) []byte {
	h := hmac.New(md5.New, key)
	for _, p := range parts {
		h.Write(p)
	}
	return h.Sum(nil)
}

func H_C02_ntlm_v2() {
	user, _, userUp16 := c02ascii("user", vParam("ulen"))
	domain, dom16, _ := c02ascii("domain", vParam("dlen"))
	pw, pw16, _ := c02ascii("pw", vParam("plen"))
	nt := refMD4(pw16)
	ntowf := c02hmac(nt[:], userUp16, dom16)
	vCheck(vBytesEq(ntowfv2(user, pw, domain), ntowf), "ntlm/ntowfv2")
	ch := &ChallengeMessage{}
	copy(ch.ServerChallenge[:], vBytes("server", 8))
	ch.TargetInfo = vBytes("ti", vParam("tilen"))
	ch.TargetName = vBytes("tn", vParam("tnlen")) // the server's name must not leak into the key derivation: the domain is used as supplied
	lmResp, ntResp, err := calculateNTLMv2Response(ch, user, pw, domain)
	vCheck(err == nil, "ntlm/v2/ok")
	vCheck(len(ntResp) >= 16+28, "ntlm/v2/response-has-proof-and-blob-header")
	if err != nil || len(ntResp) < 44 {
		return
	}
	temp := ntResp[16:]
	vCheck(vBytesEq(ntResp[:16], c02hmac(ntowf, ch.ServerChallenge[:], temp)), "ntlm/v2/NTProofStr-verifies-under-NTOWFv2")
	vCheck(temp[0] == 1 && temp[1] == 1, "ntlm/v2/blob/resp-type")
	for i := 2; i < 8; i++ {
		vCheck(temp[i] == 0, "ntlm/v2/blob/reserved-zero")
	}
	for i := 24; i < 28; i++ {
		vCheck(temp[i] == 0, "ntlm/v2/blob/reserved3-zero")
	}
	vCheck(len(temp) == 28+len(ch.TargetInfo)+4, "ntlm/v2/blob/length")
	if len(temp) == 28+len(ch.TargetInfo)+4 {
		vCheck(vBytesEq(temp[28:28+len(ch.TargetInfo)], ch.TargetInfo), "ntlm/v2/blob/target-info-copied")
	}
	// LMv2 = HMAC-MD5(NTOWFv2, server || client) || client
	vCheck(len(lmResp) == 24, "ntlm/lmv2/length")
	if len(lmResp) == 24 {
		vCheck(vBytesEq(lmResp[:16], c02hmac(ntowf, ch.ServerChallenge[:], lmResp[16:])), "ntlm/lmv2/verifies")
	}
	vCover("end")
}

// The responses inside the AUTHENTICATE message built from a challenge: with extended session security the NT response
// is an NTLMv2 response that verifies under NTOWFv2(password, user, domain-as-supplied) — whatever character set the
// names are sent in (the UNICODE flag only selects the encoding of the name fields, not the key derivation).
func H_C02_ntlm_authenticate_verifies() {
	flags := vU32("flags") | NTLMSSP_NEGOTIATE_EXTENDED_SESSIONSECURITY
	if vParam("unicode") == 1 {
		flags |= NTLMSSP_NEGOTIATE_UNICODE
	} else {
		flags &^= NTLMSSP_NEGOTIATE_UNICODE
	}
	ch := &ChallengeMessage{NegotiateFlags: flags}
	copy(ch.ServerChallenge[:], vBytes("server", 8))
	ch.TargetInfo = vBytes("ti", 4)
	user, _, userUp16 := c02ascii("user", vParam("ulen"))
	domain, dom16, _ := c02ascii("domain", vParam("dlen"))
	ws, _, _ := c02ascii("ws", 2)
	pw, pw16, _ := c02ascii("pw", vParam("plen"))
	msg, err := CreateAuthenticateMessage(ch, user, pw, domain, ws)
	vCheck(err == nil && len(msg) >= 88, "ntlm/authenticate/ok")
	if err != nil || len(msg) < 88 {
		return
	}
	ntResp, _, ok := c08field(msg, 20, "ntlm/authenticate/nt-response")
	if !ok || len(ntResp) < 44 {
		vCheck(false, "ntlm/authenticate/nt-response-is-an-NTLMv2-response")
		return
	}
	nt := refMD4(pw16)
	ntowf := c02hmac(nt[:], userUp16, dom16)
	vCheck(vBytesEq(ntResp[:16], c02hmac(ntowf, ch.ServerChallenge[:], ntResp[16:])), "ntlm/authenticate/NTProofStr-verifies-under-NTOWFv2")
	lmResp, _, ok := c08field(msg, 12, "ntlm/authenticate/lm-response")
	if ok && len(lmResp) == 24 {
		vCheck(vBytesEq(lmResp[:16], c02hmac(ntowf, ch.ServerChallenge[:], lmResp[16:])), "ntlm/authenticate/LMv2-verifies-under-NTOWFv2")
	}
	vCover("end")
}
