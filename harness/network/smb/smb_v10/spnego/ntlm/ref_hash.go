package ntlm

// Shared reference: MD4 per RFC 1320, UTF-16LE per the Unicode standard (copied into each harness package by gen/copy_shared.py).

func refRotl(x, s uint32) uint32 { return (x << s) | (x >> (32 - s)) }
func refF(x, y, z uint32) uint32 { return (x & y) | (^x & z) }
func refG(x, y, z uint32) uint32 { return (x & y) | (x & z) | (y & z) }
func refH(x, y, z uint32) uint32 { return x ^ y ^ z }

// one step of each round, RFC 1320 section 3.4
func refFF(a, b, c, d, x, s uint32) uint32 { return refRotl(a+refF(b, c, d)+x, s) }
func refGG(a, b, c, d, x, s uint32) uint32 { return refRotl(a+refG(b, c, d)+x+0x5A827999, s) }
func refHH(a, b, c, d, x, s uint32) uint32 { return refRotl(a+refH(b, c, d)+x+0x6ED9EBA1, s) }

var refOrder = [3][16]int{
	{0, 1, 2, 3, 4, 5, 6, 7, 8, 9, 10, 11, 12, 13, 14, 15},
	{0, 4, 8, 12, 1, 5, 9, 13, 2, 6, 10, 14, 3, 7, 11, 15},
	{0, 8, 4, 12, 2, 10, 6, 14, 1, 9, 5, 13, 3, 11, 7, 15},
}
var refShift = [3][4]uint32{{3, 7, 11, 19}, {3, 5, 9, 13}, {3, 9, 11, 15}}

// refCompress is the RFC 1320 compression function: generic 3x16 step loop.
func refCompress(st [4]uint32, block []byte) [4]uint32 {
	var X [16]uint32
	for i := 0; i < 16; i++ {
		X[i] = uint32(block[4*i]) | uint32(block[4*i+1])<<8 | uint32(block[4*i+2])<<16 | uint32(block[4*i+3])<<24
	}
	r := st // r[0]=A r[1]=B r[2]=C r[3]=D
	for round := 0; round < 3; round++ {
		for i := 0; i < 16; i++ {
			// registers rotate ABCD -> DABC -> CDAB -> BCDA
			ia := (4 - i%4) % 4
			ib, ic, id := (ia+1)%4, (ia+2)%4, (ia+3)%4
			k := refOrder[round][i]
			s := refShift[round][i%4]
			switch round {
			case 0:
				r[ia] = refFF(r[ia], r[ib], r[ic], r[id], X[k], s)
			case 1:
				r[ia] = refGG(r[ia], r[ib], r[ic], r[id], X[k], s)
			default:
				r[ia] = refHH(r[ia], r[ib], r[ic], r[id], X[k], s)
			}
		}
	}
	return [4]uint32{st[0] + r[0], st[1] + r[1], st[2] + r[2], st[3] + r[3]}
}

// refAbsorb folds whole blocks of data into st and returns the new state and the unprocessed tail.
func refAbsorb(st [4]uint32, data []byte) ([4]uint32, []byte) {
	for len(data) >= 64 {
		st = refCompress(st, data[:64])
		data = data[64:]
	}
	return st, data
}

// refFinal pads (RFC 1320 3.1, 3.2) and serialises the digest; bits is the total message length in bits.
func refFinal(st [4]uint32, tail []byte, bits uint64) [16]byte {
	buf := append([]byte{}, tail...)
	buf = append(buf, 0x80)
	for len(buf)%64 != 56 {
		buf = append(buf, 0)
	}
	for i := 0; i < 8; i++ {
		buf = append(buf, byte(bits>>(8*uint(i))))
	}
	st, _ = refAbsorb(st, buf)
	var out [16]byte
	for i := 0; i < 4; i++ {
		out[4*i] = byte(st[i])
		out[4*i+1] = byte(st[i] >> 8)
		out[4*i+2] = byte(st[i] >> 16)
		out[4*i+3] = byte(st[i] >> 24)
	}
	return out
}

func refMD4(data []byte) [16]byte {
	st := [4]uint32{0x67452301, 0xefcdab89, 0x98badcfe, 0x10325476}
	st, tail := refAbsorb(st, data)
	return refFinal(st, tail, uint64(len(data))*8)
}

// refUTF16LE encodes code points (no surrogates) as UTF-16 little-endian.
func refUTF16LE(cps []rune) []byte {
	var out []byte
	for _, c := range cps {
		if c < 0x10000 {
			out = append(out, byte(c), byte(c>>8))
		} else {
			d := c - 0x10000
			hi, lo := 0xD800+(d>>10), 0xDC00+(d&0x3FF)
			out = append(out, byte(hi), byte(hi>>8), byte(lo), byte(lo>>8))
		}
	}
	return out
}

// symRune returns a symbolic code point whose UTF-8 encoding has exactly `size` bytes (1..4), never a surrogate.
func symRune(tag string, size int) rune {
	c := rune(vU32(tag) & 0x1FFFFF)
	switch size {
	case 1:
		vAssume(c < 0x80)
	case 2:
		vAssume(c >= 0x80 && c < 0x800)
	case 3:
		vAssume(c >= 0x800 && c < 0x10000)
		vAssume(c < 0xD800 || c > 0xDFFF)
	default:
		vAssume(c >= 0x10000 && c <= 0x10FFFF)
	}
	return c
}

// symText builds a string of code points whose UTF-8 sizes are given by the decimal digits of shape (e.g. 213).
func symText(tag string, shape int) (string, []rune) {
	var sizes []int
	for shape > 0 {
		sizes = append([]int{shape % 10}, sizes...)
		shape /= 10
	}
	s := ""
	var cps []rune
	for i, sz := range sizes {
		c := symRune(tag+string(rune('a'+i)), sz)
		cps = append(cps, c)
		s += string(c)
	}
	return s, cps
}
