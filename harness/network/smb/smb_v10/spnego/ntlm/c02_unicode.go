package ntlm

import "unicode"

// Non-ASCII names in this package's own NTOWFv2: UPPER(user) is the Unicode simple case mapping applied to the text, then
// UTF-16LE; the domain is used as supplied. Names are concrete samples (the executor models case mapping of symbolic
// text only in the ASCII range); password and challenge stay symbolic.
var c02names = []string{"müller", "šimon", "ǆon", "愛子", "a𝒷c", "Ωmega"}

func c02refUpper(s string) []rune {
	out := []rune{}
	for _, r := range s {
		out = append(out, unicode.ToUpper(r))
	}
	return out
}

func H_C02_ntlm_v2_unicode_names() {
	user := c02names[vParam("name")]
	domain := c02names[vParam("dom")]
	pw, pw16, _ := c02ascii("pw", vParam("plen"))
	nt := refMD4(pw16)
	ntowf := c02hmac(nt[:], refUTF16LE(c02refUpper(user)), refUTF16LE([]rune(domain)))
	vCheck(vBytesEq(ntowfv2(user, pw, domain), ntowf), "ntlm/ntowfv2-for-non-ASCII-names")
	ch := &ChallengeMessage{}
	copy(ch.ServerChallenge[:], vBytes("server", 8))
	ch.TargetInfo = vBytes("ti", 4)
	_, ntResp, err := calculateNTLMv2Response(ch, user, pw, domain)
	vCheck(err == nil && len(ntResp) >= 44, "ntlm/v2u/ok")
	if err == nil && len(ntResp) >= 44 {
		vCheck(vBytesEq(ntResp[:16], c02hmac(ntowf, ch.ServerChallenge[:], ntResp[16:])), "ntlm/v2u/NTProofStr-verifies-for-non-ASCII-names")
	}
	vCover("end")
}
