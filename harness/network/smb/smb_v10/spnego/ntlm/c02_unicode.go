package ntlm

import "unicode"

// Non-ASCII names in this package's own NTOWFv2: UPPER(user) is the Unicode simple case mapping applied to the text, then
// UTF-16LE; the domain is used as supplied. Names are concrete samples (the executor models case mapping of symbolic
// text only in the ASCII range); password and challenge stay symbolic.
var c02names = []string{"müller", "šimon", "ǆon", "愛子", "a𝒷c", "Ωmega"}

func c02refUpper(s string) []rune {
	out := []rune{}
	for _, r := range s {
		out = append(out, unicode.ToUpper(r))
	}
	return out
}
