package version

func H_C06_Version() {
	v := NewVersion(vU8("major"), vU8("minor"), vU16("build"), vU8("rev"))
	copy(v.Reserved[:], vBytes("reserved", 3))
	enc, err := v.Marshal()
	vCheck(err == nil, "Version/marshal-ok")
	vCheck(len(enc) == 8, "Version/size")
	vCheck(enc[0] == v.ProductMajorVersion && enc[1] == v.ProductMinorVersion, "Version/layout-major-minor")
	vCheck(enc[2] == byte(v.ProductBuild) && enc[3] == byte(v.ProductBuild>>8), "Version/layout-build-le")
	vCheck(enc[7] == v.NTLMRevision, "Version/layout-revision")
	in := append(append([]byte{}, enc...), vBytes("suffix", vParam("sfx"))...)
	var d Version
	n, err := d.Unmarshal(in)
	vCheck(err == nil, "Version/unmarshal-ok")
	vCheck(n == len(enc), "Version/consumed")
	vCheck(d == v, "Version/fields")
	vCover("end")
}
