package ntlm

// C02 — harnesses that call the package's unexported helpers directly (createDesKey, desEncrypt, ntowfv2,
// calculateNTLMv2Response). They live in a file of their own: if a refactoring changes one of those signatures this file no
// longer compiles, is left out (reported as inconclusive), and the harnesses that go through the exported entry points
// still run.

func H_C02_ntlm_deskey() {
	key := vBytes("key", 7)
	out, err := createDesKey(key)
	vCheck(err == nil && len(out) == 8, "ntlm/deskey/size")
	if len(out) != 8 {
		return
	}
	want := c02spread(key)
	for i := 0; i < 8; i++ {
		vCheck(out[i]&0xFE == want[i], "ntlm/deskey/seven-key-bits-in-high-positions")
	}
	// last, a recorded finding would otherwise restrict the checks above
	for i := 0; i < 8; i++ {
		vCheck(c02pop(out[i])&1 == 1, "ntlm/deskey/odd-parity")
	}
	vCover("end")
}

func H_C02_ntlm_desencrypt() {
	hash := vBytes("hash", 16)
	ch := vBytes("challenge", 8)
	vCheck(vBytesEq(desEncrypt(hash, ch), c02DESL(hash, ch)), "ntlm/desEncrypt-equals-DESL")
	vCover("end")
}

func H_C02_ntlm_v2() {
	user, _, userUp16 := c02ascii("user", vParam("ulen"))
	domain, dom16, _ := c02ascii("domain", vParam("dlen"))
	pw, pw16, _ := c02ascii("pw", vParam("plen"))
	nt := refMD4(pw16)
	ntowf := c02hmac(nt[:], userUp16, dom16)
	vCheck(vBytesEq(ntowfv2(user, pw, domain), ntowf), "ntlm/ntowfv2")
	ch := &ChallengeMessage{}
	copy(ch.ServerChallenge[:], vBytes("server", 8))
	ch.TargetInfo = vBytes("ti", vParam("tilen"))
	ch.TargetName = vBytes("tn", vParam("tnlen")) // the server's name must not leak into the key derivation: the domain is used as supplied
	lmResp, ntResp, err := calculateNTLMv2Response(ch, user, pw, domain)
	vCheck(err == nil, "ntlm/v2/ok")
	vCheck(len(ntResp) >= 16+28, "ntlm/v2/response-has-proof-and-blob-header")
	if err != nil || len(ntResp) < 44 {
		return
	}
	temp := ntResp[16:]
	vCheck(vBytesEq(ntResp[:16], c02hmac(ntowf, ch.ServerChallenge[:], temp)), "ntlm/v2/NTProofStr-verifies-under-NTOWFv2")
	vCheck(temp[0] == 1 && temp[1] == 1, "ntlm/v2/blob/resp-type")
	for i := 2; i < 8; i++ {
		vCheck(temp[i] == 0, "ntlm/v2/blob/reserved-zero")
	}
	for i := 24; i < 28; i++ {
		vCheck(temp[i] == 0, "ntlm/v2/blob/reserved3-zero")
	}
	vCheck(len(temp) == 28+len(ch.TargetInfo)+4, "ntlm/v2/blob/length")
	if len(temp) == 28+len(ch.TargetInfo)+4 {
		vCheck(vBytesEq(temp[28:28+len(ch.TargetInfo)], ch.TargetInfo), "ntlm/v2/blob/target-info-copied")
	}
	// LMv2 = HMAC-MD5(NTOWFv2, server || client) || client
	vCheck(len(lmResp) == 24, "ntlm/lmv2/length")
	if len(lmResp) == 24 {
		vCheck(vBytesEq(lmResp[:16], c02hmac(ntowf, ch.ServerChallenge[:], lmResp[16:])), "ntlm/lmv2/verifies")
	}
	vCover("end")
}

// Non-ASCII names in this package's own NTOWFv2 (concrete samples from c02names; password and challenge symbolic).
func H_C02_ntlm_v2_unicode_names() {
	user := c02names[vParam("name")]
	domain := c02names[vParam("dom")]
	pw, pw16, _ := c02ascii("pw", vParam("plen"))
	nt := refMD4(pw16)
	ntowf := c02hmac(nt[:], refUTF16LE(c02refUpper(user)), refUTF16LE([]rune(domain)))
	vCheck(vBytesEq(ntowfv2(user, pw, domain), ntowf), "ntlm/ntowfv2-for-non-ASCII-names")
	ch := &ChallengeMessage{}
	copy(ch.ServerChallenge[:], vBytes("server", 8))
	ch.TargetInfo = vBytes("ti", 4)
	_, ntResp, err := calculateNTLMv2Response(ch, user, pw, domain)
	vCheck(err == nil && len(ntResp) >= 44, "ntlm/v2u/ok")
	if err == nil && len(ntResp) >= 44 {
		vCheck(vBytesEq(ntResp[:16], c02hmac(ntowf, ch.ServerChallenge[:], ntResp[16:])), "ntlm/v2u/NTProofStr-verifies-for-non-ASCII-names")
	}
	vCover("end")
}
