package spnego

// derLen reads a DER definite length at off; returns (length, octets used) or (-1, 0)
func derLen(b []byte, off int) (int, int) {
	if off >= len(b) {
		return -1, 0
	}
	if b[off] < 0x80 {
		return int(b[off]), 1
	}
	k := int(b[off] & 0x7F)
	if k == 0 || k > 4 || off+1+k > len(b) {
		return -1, 0
	}
	n := 0
	for i := 0; i < k; i++ {
		n = n<<8 | int(b[off+1+i])
	}
	return n, 1 + k
}

// Wrapping a token of length L in SPNEGO and extracting it again returns the identical token; the GSS-API header
// carries a correct X.690 definite length.
func H_C08_spnego_wrap() {
	L := vParam("L")
	token := vBytes("token", L)
	init, err := CreateNegTokenInit(token)
	vCheck(err == nil, "spnego/init/ok")
	vCheck(len(init) > 2 && init[0] == 0x60, "spnego/init/application-tag")
	if err == nil && len(init) > 2 {
		n, used := derLen(init, 1)
		vCheck(n >= 0 && 1+used+n == len(init), "spnego/init/outer-length-is-exact-der")
		if n >= 128 {
			vCheck(init[2] != 0, "spnego/init/outer-length-minimal")
		}
		got, err := ExtractNTLMToken(init)
		if L > 0 {
			vCheck(err == nil, "spnego/init/extract-ok")
			if err == nil {
				vCheck(vBytesEq(got, token), "spnego/init/extract-of-wrap-identity")
			}
		}
	}
	// an earlier result is not disturbed by later calls (no storage shared between results): wrap a shorter token afterwards
	if err == nil {
		keep := append([]byte{}, init...)
		other := vBytes("other", L/2)
		_, _ = CreateNegTokenInit(other)
		_, _ = CreateNegTokenResp(AcceptIncomplete, NtlmOID, other)
		vCheck(vBytesEq(init, keep), "spnego/init/result-not-disturbed-by-later-calls")
	}
	resp, err := CreateNegTokenResp(AcceptIncomplete, NtlmOID, token)
	vCheck(err == nil, "spnego/resp/ok")
	vCheck(len(resp) > 2 && resp[0] == 0x60, "spnego/resp/application-tag")
	if err == nil && len(resp) > 2 {
		n, used := derLen(resp, 1)
		vCheck(n >= 0 && 1+used+n == len(resp), "spnego/resp/outer-length-is-exact-der")
		p, err := ParseNegTokenResp(resp)
		vCheck(err == nil, "spnego/resp/parse-ok")
		if err == nil {
			vCheck(p.NegState == AcceptIncomplete, "spnego/resp/state")
			vCheck(p.SupportedMech.Equal(NtlmOID), "spnego/resp/mech")
			vCheck(vBytesEq(p.ResponseToken, token), "spnego/resp/parse-of-wrap-identity")
		}
		keep := append([]byte{}, resp...)
		other := vBytes("other2", L/2)
		_, _ = CreateNegTokenResp(AcceptIncomplete, NtlmOID, other)
		_, _ = CreateNegTokenInit(other)
		vCheck(vBytesEq(resp, keep), "spnego/resp/result-not-disturbed-by-later-calls")
		got, err := ExtractNTLMToken(resp)
		if L > 0 {
			vCheck(err == nil, "spnego/resp/extract-ok")
			if err == nil {
				vCheck(vBytesEq(got, token), "spnego/resp/extract-of-wrap-identity")
			}
		}
	}
	vCover("end")
}
