package spnego

import "github.com/TheManticoreProject/Manticore/network/smb/smb_v10/spnego/ntlm"

// C08 — the authentication context drives the exchange: its first token wraps exactly the NEGOTIATE message for its
// domain / workstation; given the server's SPNEGO response it records precisely the CHALLENGE that response carries and
// answers with a wrapped AUTHENTICATE message; a rejecting response, or a mechanism it does not implement, is an error.
func H_C08_auth_context() {
	flags := vU32("flags")
	if vParam("unicode") == 1 {
		flags |= ntlm.NTLMSSP_NEGOTIATE_UNICODE
	} else {
		flags &^= ntlm.NTLMSSP_NEGOTIATE_UNICODE
	}
	server := vBytes("server", 8)
	tname := vBytes("tname", 4)
	val := vBytes("avval", 2)
	ti := []byte{2, 0, 2, 0, val[0], val[1], 0, 0, 0, 0}
	chall := append([]byte{}, []byte("NTLMSSP\x00")...)
	chall = append(chall, 2, 0, 0, 0)
	chall = append(chall, 4, 0, 4, 0, 56, 0, 0, 0)
	chall = append(chall, byte(flags), byte(flags>>8), byte(flags>>16), byte(flags>>24))
	chall = append(chall, server...)
	chall = append(chall, 0, 0, 0, 0, 0, 0, 0, 0)
	chall = append(chall, byte(len(ti)), 0, byte(len(ti)), 0, 60, 0, 0, 0)
	chall = append(chall, 0, 0, 0, 0, 0, 0, 0, 0)
	chall = append(chall, tname...)
	chall = append(chall, ti...)
	useUnicode := vParam("unicode") == 1
	ctx := NewAuthContext(AuthTypeNTLM, "DOM", "user", "pw", "WS", useUnicode)
	first, err := ctx.CreateNegotiateToken()
	vCheck(err == nil, "auth/negotiate-token-ok")
	if err == nil {
		inner, err := ExtractNTLMToken(first)
		want, _ := ntlm.CreateNegotiateMessage("DOM", "WS", useUnicode)
		vCheck(err == nil && vBytesEq(inner, want), "auth/negotiate-token-wraps-the-NEGOTIATE-message-of-this-context")
	}
	tok, err := CreateNegTokenResp(AcceptIncomplete, NtlmOID, chall)
	vCheck(err == nil, "auth/server-token-ok")
	if err != nil {
		return
	}
	received := append([]byte{}, tok...)
	out, err := ctx.ProcessChallengeToken(tok)
	vCheck(err == nil, "auth/challenge-token-accepted")
	vCheck(vBytesEq(tok, received), "auth/received-token-unchanged")
	if err == nil {
		c := ctx.NTLMChallenge
		vCheck(c != nil, "auth/challenge-recorded")
		if c != nil {
			vCheck(c.NegotiateFlags == flags && vBytesEq(c.ServerChallenge[:], server), "auth/recorded-challenge-flags-and-server-challenge")
			vCheck(vBytesEq(c.TargetName, tname) && vBytesEq(c.TargetInfo, ti), "auth/recorded-challenge-target-name-and-info")
		}
		inner, err := ExtractNTLMToken(out)
		vCheck(err == nil && len(inner) >= 88, "auth/answer-wraps-a-message")
		if err == nil && len(inner) >= 88 {
			vCheck(vBytesEq(inner[0:8], []byte("NTLMSSP\x00")) && inner[8] == 3 && inner[9] == 0 && inner[10] == 0 && inner[11] == 0, "auth/answer-is-an-AUTHENTICATE-message")
			vCheck(uint32(inner[60])|uint32(inner[61])<<8|uint32(inner[62])<<16|uint32(inner[63])<<24 == flags, "auth/answer-echoes-the-negotiated-flags")
			// the same message the NTLM layer builds for these credentials, up to the client nonce and time stamp inside
			direct, derr := ntlm.CreateAuthenticateMessage(c, "user", "pw", "DOM", "WS")
			vCheck(derr == nil && len(direct) == len(inner), "auth/answer-has-the-length-of-the-AUTHENTICATE-message-for-these-credentials")
		}
	}
	// a rejecting server, and a mechanism that is not implemented
	rej, err := CreateNegTokenResp(Reject, NtlmOID, chall)
	if err == nil {
		_, err = ctx.ProcessChallengeToken(rej)
		vCheck(err != nil, "auth/rejecting-response-is-an-error")
	}
	k := NewAuthContext(AuthTypeKerberos, "DOM", "user", "pw", "WS", true)
	_, err = k.CreateNegotiateToken()
	vCheck(err != nil, "auth/kerberos-negotiate-not-implemented")
	_, err = k.ProcessChallengeToken(tok)
	vCheck(err != nil, "auth/kerberos-challenge-not-implemented")
	// the session-setup blob: the token as it stands, or its UTF-16LE re-encoding when Unicode strings were asked for
	vCheck(vBytesEq(PrepareSessionSetupRequest(tok, false), tok), "auth/session-setup-blob-is-the-token")
	vCover("end")
}
