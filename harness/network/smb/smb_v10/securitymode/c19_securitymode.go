package securitymode

func H_C19_securitymode_predicates() {
	w, x := SecurityMode(vU8("w")), SecurityMode(vU8("x"))
	preds := []struct {
		f    func(SecurityMode) bool
		mask SecurityMode
		id   string
	}{
		{SecurityMode.SupportsPlaintextPasswordAuth, NEGOTIATE_ENCRYPT_PASSWORDS, "SupportsPlaintextPasswordAuth"},
		{SecurityMode.SupportsChallengeResponseAuth, NEGOTIATE_ENCRYPT_PASSWORDS, "SupportsChallengeResponseAuth"},
		{SecurityMode.SupportsShareLevelAccessControl, NEGOTIATE_USER_SECURITY, "SupportsShareLevelAccessControl"},
		{SecurityMode.SupportsUserLevelAccessControl, NEGOTIATE_USER_SECURITY, "SupportsUserLevelAccessControl"},
		{SecurityMode.IsSecuritySignatureEnabled, NEGOTIATE_SECURITY_SIGNATURES_ENABLED, "IsSecuritySignatureEnabled"},
		{SecurityMode.IsSecuritySignatureRequired, NEGOTIATE_SECURITY_SIGNATURES_REQUIRED, "IsSecuritySignatureRequired"},
	}
	for _, p := range preds {
		vCheck(vImplies(w&p.mask == x&p.mask, p.f(w) == p.f(x)), "securitymode/"+p.id+"/depends-only-on-own-bit")
		vCheck(p.f(0) != p.f(p.mask), "securitymode/"+p.id+"/depends-on-own-bit")
	}
	// complementary pairs
	vCheck(w.SupportsPlaintextPasswordAuth() != w.SupportsChallengeResponseAuth(), "securitymode/plaintext-xor-challenge-response")
	vCheck(w.SupportsShareLevelAccessControl() != w.SupportsUserLevelAccessControl(), "securitymode/share-xor-user-level")
	vCover("end")
}
