package types

// C07 — the 16-bit length prefix of SMB_STRING at its upper boundary: a 65540-byte input whose length field is
// 0xFFFC..0xFFFF (formats 0x01, 0x03, 0x05). Offsets computed in 16 bits wrap here; in int they do not.
func H_C07_SMB_STRING_boundary() {
	b := make([]byte, 65540)
	b[0] = byte(vParam("format"))
	lo := vU8("lo")
	vAssume(lo >= 0xFC)
	b[1], b[2] = lo, 0xFF
	var v SMB_STRING
	n, err := v.Unmarshal(b)
	if err == nil {
		vCheck(n <= len(b), "smb-string-boundary/consumed-within-input")
	}
	vCover("end")
}
