package types

// C05 — MS-CIFS 2.2.1.2.2 SMB_FILE_ATTRIBUTES is a 16-bit little-endian field; 2.2.2.5 buffer formats:
// 0x01 data buffer (USHORT length, bytes), 0x02 dialect / 0x04 SMB string (null-terminated), 0x05 variable block (USHORT length, bytes).

func H_C05_file_attributes() {
	v := vU16("attributes")
	s := SMB_FILE_ATTRIBUTES{Attributes: v}
	raw, err := s.Marshal()
	vCheck(err == nil && len(raw) == 2, "C05/file-attributes/two-bytes")
	if err != nil || len(raw) != 2 {
		return
	}
	vCheck(raw[0] == byte(v) && raw[1] == byte(v>>8), "C05/file-attributes/little-endian")
	vCover("end")
}

func H_C05_buffer_formats() {
	format := UCHAR(vParam("format"))
	L := vParam("len")
	b := vBytes("buffer", L)
	counted := format == SMB_STRING_BUFFER_FORMAT_VARIABLE_BLOCK_16BIT || format == SMB_STRING_BUFFER_FORMAT_VARIABLE_BLOCK
	if !counted {
		for i := range b {
			vAssume(b[i] != 0)
		}
	}
	ref := []byte{byte(format)}
	if counted {
		ref = append(ref, byte(L), byte(L>>8))
		ref = append(ref, b...)
	} else {
		ref = append(ref, b...)
		ref = append(ref, 0)
	}
	s := NewSMB_STRING(b)
	s.SetBufferFormat(format)
	raw, err := s.Marshal()
	vCheck(err == nil, "C05/buffer-format/marshal-ok")
	if err != nil {
		return
	}
	vCheck(len(raw) > 0 && raw[0] == byte(format), "C05/buffer-format/own-format-byte-first")
	vCheck(vBytesEq(raw, ref), "C05/buffer-format/bytes-equal-the-reference-encoding")
	d := NewSMB_STRING(nil)
	n, err := d.Unmarshal(ref)
	vCheck(err == nil && n == len(ref), "C05/buffer-format/reference-encoding-accepted")
	if err == nil {
		vCheck(d.BufferFormat == format && vBytesEq(d.Buffer, b), "C05/buffer-format/decoded-format-and-bytes")
	}
	vCover("end")
}
