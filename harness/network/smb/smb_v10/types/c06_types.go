package types

import "bytes"

// C06 — wire data types decode their own encoding back to equal fields and report exactly the
// number of bytes that encoding occupies, also when followed by unrelated trailing bytes.

func withSuffix(enc []byte) []byte {
	sfx := vBytes("suffix", vParam("sfx"))
	out := append([]byte{}, enc...)
	return append(out, sfx...)
}

func H_C06_SMB_STRING() {
	format := UCHAR(vParam("format"))
	// the payload is cut from a larger array (say one name out of a packed list): two more bytes of the caller's follow it
	L := vParam("len")
	backing := vBytes("payload", L+2)
	payload := backing[:L]
	behind0, behind1 := backing[L], backing[L+1]
	if format == SMB_STRING_BUFFER_FORMAT_NULL_TERMINATED_OEM_STRING || format == SMB_STRING_BUFFER_FORMAT_NULL_TERMINATED_ASCII_STRING {
		for i := range payload {
			vAssume(payload[i] != 0) // NUL-terminated formats cannot carry an embedded NUL
		}
	}
	s := NewSMB_STRING(payload)
	s.SetBufferFormat(format)
	enc, err := s.Marshal()
	vCheck(err == nil, "SMB_STRING/marshal-ok")
	vCheck(backing[L] == behind0 && backing[L+1] == behind1, "SMB_STRING/marshal-leaves-the-caller's-bytes-behind-the-buffer-alone")
	d := SMB_STRING{BufferFormat: vU8("prev.format"), Length: USHORT(vU16("prev.length")), Buffer: vBytes("prev.buffer", 3)} // a reused receiver
	n, err := d.Unmarshal(withSuffix(enc))
	vCheck(err == nil, "SMB_STRING/unmarshal-ok")
	vCheck(n == len(enc), "SMB_STRING/consumed")
	vCheck(d.BufferFormat == format, "SMB_STRING/format")
	vCheck(int(d.Length) == len(payload), "SMB_STRING/length")
	vCheck(vBytesEq(d.Buffer, payload), "SMB_STRING/buffer")
	vCover("end")
}

func H_C06_OEM_STRING() {
	payload := vString("payload", vParam("len"))
	for i := 0; i < len(payload); i++ {
		vAssume(payload[i] != 0)
	}
	o := NewOEM_STRINGFromString(payload)
	enc, err := o.Marshal()
	vCheck(err == nil, "OEM_STRING/marshal-ok")
	d := NewOEM_STRING()
	n, err := d.Unmarshal(withSuffix(enc))
	vCheck(err == nil, "OEM_STRING/unmarshal-ok")
	vCheck(n == len(enc), "OEM_STRING/consumed")
	vCheck(vStrEq(d.GetString(), payload), "OEM_STRING/value")
	vCover("end")
}

// SMB_DATE: all 65536 packed words in one query, and all field values in the representable domain.
func H_C06_SMB_DATE() {
	w := vU16("word")
	enc := []byte{byte(w), byte(w >> 8)}
	var d SMB_DATE
	n, err := d.Unmarshal(withSuffix(enc))
	vCheck(err == nil, "SMB_DATE/unmarshal-ok")
	vCheck(n == 2, "SMB_DATE/consumed")
	vCheck(d.Day == uint8(w&0x1F), "SMB_DATE/day-bits-0-4")
	vCheck(d.Month == uint8((w>>5)&0xF), "SMB_DATE/month-bits-5-8")
	vCheck(d.Year == 1980+(w>>9), "SMB_DATE/year-bits-9-15")
	re, err := d.Marshal()
	vCheck(err == nil, "SMB_DATE/marshal-ok")
	vCheck(vBytesEq(re, enc), "SMB_DATE/re-encode")
	// field direction
	y, m, dd := vU16("year"), vU8("month"), vU8("day")
	vAssume(y >= 1980)
	vAssume(y <= 2107)
	vAssume(m <= 15)
	vAssume(dd <= 31)
	f := NewSMB_DATEFromDate(int(y), int(m), int(dd))
	fe, _ := f.Marshal()
	var g SMB_DATE
	n2, err := g.Unmarshal(withSuffix(fe))
	vCheck(err == nil, "SMB_DATE/fields/unmarshal-ok")
	vCheck(n2 == len(fe), "SMB_DATE/fields/consumed")
	vCheck(vAnd(g.Year == y, vAnd(g.Month == m, g.Day == dd)), "SMB_DATE/fields/equal")
	vCover("end")
}

func H_C06_FILETIME() {
	f := FILETIME{DwLowDateTime: vU32("lo"), DwHighDateTime: vU32("hi")}
	enc, err := f.Marshal()
	vCheck(err == nil, "FILETIME/marshal-ok")
	vCheck(len(enc) == 8, "FILETIME/size")
	var d FILETIME
	n, err := d.Unmarshal(withSuffix(enc))
	vCheck(err == nil, "FILETIME/unmarshal-ok")
	vCheck(n == len(enc), "FILETIME/consumed")
	vCheck(vAnd(d.DwLowDateTime == f.DwLowDateTime, d.DwHighDateTime == f.DwHighDateTime), "FILETIME/fields")
	vCover("end")
}

func H_C06_LOCKING_ANDX_RANGE32() {
	v := LOCKING_ANDX_RANGE32{PID: USHORT(vU16("pid")), ByteOffset: ULONG(vU32("off")), LengthInBytes: ULONG(vU32("len"))}
	enc, err := v.Marshal()
	vCheck(err == nil, "RANGE32/marshal-ok")
	var d LOCKING_ANDX_RANGE32
	n, err := d.Unmarshal(withSuffix(enc))
	vCheck(err == nil, "RANGE32/unmarshal-ok")
	vCheck(n == len(enc), "RANGE32/consumed")
	vCheck(d == v, "RANGE32/fields")
	vCover("end")
}

func H_C06_LOCKING_ANDX_RANGE64() {
	v := LOCKING_ANDX_RANGE64{PID: USHORT(vU16("pid")), Pad: USHORT(vU16("pad")), ByteOffsetHigh: ULONG(vU32("oh")), ByteOffsetLow: ULONG(vU32("ol")),
		LengthInBytesHigh: ULONG(vU32("lh")), LengthInBytesLow: ULONG(vU32("ll"))}
	enc, err := v.Marshal()
	vCheck(err == nil, "RANGE64/marshal-ok")
	var d LOCKING_ANDX_RANGE64
	n, err := d.Unmarshal(withSuffix(enc))
	vCheck(err == nil, "RANGE64/unmarshal-ok")
	vCheck(n == len(enc), "RANGE64/consumed")
	vCheck(d == v, "RANGE64/fields")
	vCover("end")
}

func H_C06_SMB_NMPIPE_STATUS() {
	v := SMB_NMPIPE_STATUS{ICount: vU8("icount"), Flags: vU8("flags")}
	enc, err := v.Marshal()
	vCheck(err == nil, "NMPIPE/marshal-ok")
	var d SMB_NMPIPE_STATUS
	n, err := d.Unmarshal(withSuffix(enc))
	vCheck(err == nil, "NMPIPE/unmarshal-ok")
	vCheck(n == len(enc), "NMPIPE/consumed")
	vCheck(d == v, "NMPIPE/fields")
	vCheck(d.IsNonBlocking() == (v.Flags&0x80 != 0), "NMPIPE/nonblocking-bit")
	vCheck(d.GetReadMode() == v.Flags&3, "NMPIPE/readmode-bits")
	vCover("end")
}

func H_C06_SMB_RESUME_KEY() {
	v := NewSMB_RESUME_KEY()
	v.Reserved = vU8("reserved")
	copy(v.ServerState[:], vBytes("server", 16))
	copy(v.ClientState[:], vBytes("client", 4))
	enc, err := v.Marshal()
	vCheck(err == nil, "RESUME_KEY/marshal-ok")
	d := NewSMB_RESUME_KEY()
	n, err := d.Unmarshal(withSuffix(enc))
	vCheck(err == nil, "RESUME_KEY/unmarshal-ok")
	vCheck(n == len(enc), "RESUME_KEY/consumed")
	vCheck(d.Reserved == v.Reserved, "RESUME_KEY/reserved")
	vCheck(d.ServerState == v.ServerState, "RESUME_KEY/server-state")
	vCheck(d.ClientState == v.ClientState, "RESUME_KEY/client-state")
	vCover("end")
}

func H_C06_SMB_FILE_ATTRIBUTES() {
	v := SMB_FILE_ATTRIBUTES{Attributes: vU16("attr")}
	enc, err := v.Marshal()
	vCheck(err == nil, "FILE_ATTRIBUTES/marshal-ok")
	var d SMB_FILE_ATTRIBUTES
	n, err := d.Unmarshal(withSuffix(enc))
	vCheck(err == nil, "FILE_ATTRIBUTES/unmarshal-ok")
	vCheck(n == len(enc), "FILE_ATTRIBUTES/consumed")
	vCheck(d.Attributes == v.Attributes, "FILE_ATTRIBUTES/fields")
	vCover("end")
}

func H_C06_SMB_DIRECTORY_INFORMATION() {
	v := NewSMB_DIRECTORY_INFORMATION()
	v.ResumeKey = *NewSMB_RESUME_KEY()
	v.ResumeKey.Reserved = vU8("reserved")
	copy(v.ResumeKey.ServerState[:], vBytes("server", 16))
	copy(v.ResumeKey.ClientState[:], vBytes("client", 4))
	v.FileAttributes = vU8("attr")
	v.LastWriteTime = SMB_TIME{DwLowDateTime: vU32("tlo"), DwHighDateTime: vU32("thi")}
	w := vU16("date")
	v.LastWriteDate = SMB_DATE{Year: 1980 + (w >> 9), Month: uint8((w >> 5) & 0xF), Day: uint8(w & 0x1F)}
	v.FileSize = ULONG(vU32("size"))
	name := vString("name", vParam("len"))
	for i := 0; i < len(name); i++ {
		vAssume(name[i] != 0)
		vAssume(name[i] != ' ') // names are compared modulo space padding; no space inside for an exact comparison
	}
	if vParam("lit") == 1 {
		// the name given as a plain literal: only the buffer is set (the Length field is not on the wire in this format)
		v.FileName = OEM_STRING{SMB_STRING: SMB_STRING{Buffer: []UCHAR(name)}}
	} else {
		v.FileName = *NewOEM_STRINGFromString(name)
	}
	enc, err := v.Marshal()
	vCheck(err == nil, "DIRECTORY_INFORMATION/marshal-ok")
	d := NewSMB_DIRECTORY_INFORMATION()
	n, err := d.Unmarshal(withSuffix(enc))
	vCheck(err == nil, "DIRECTORY_INFORMATION/unmarshal-ok")
	vCheck(n == len(enc), "DIRECTORY_INFORMATION/consumed")
	vCheck(d.ResumeKey.Reserved == v.ResumeKey.Reserved, "DIRECTORY_INFORMATION/resume-reserved")
	vCheck(d.ResumeKey.ServerState == v.ResumeKey.ServerState, "DIRECTORY_INFORMATION/resume-server")
	vCheck(d.ResumeKey.ClientState == v.ResumeKey.ClientState, "DIRECTORY_INFORMATION/resume-client")
	vCheck(d.FileAttributes == v.FileAttributes, "DIRECTORY_INFORMATION/attributes")
	vCheck(d.LastWriteTime == v.LastWriteTime, "DIRECTORY_INFORMATION/time")
	vCheck(d.LastWriteDate == v.LastWriteDate, "DIRECTORY_INFORMATION/date")
	vCheck(d.FileSize == v.FileSize, "DIRECTORY_INFORMATION/size")
	got := d.FileName.GetString()
	vCheck(len(got) == 12, "DIRECTORY_INFORMATION/name-padded-to-12")
	if len(got) == 12 {
		vCheck(vStrEq(got[:len(name)], name), "DIRECTORY_INFORMATION/name")
		for i := len(name); i < 12; i++ {
			vCheck(got[i] == ' ', "DIRECTORY_INFORMATION/name-padding")
		}
	}
	vCover("end")
}

// SMB_STRING at the upper boundary of its 16-bit length field (formats 0x01, 0x03, 0x05): payloads of 65533..65535
// bytes (first and last byte symbolic, the rest zero) followed by trailing bytes.
func H_C06_SMB_STRING_boundary() {
	format := UCHAR(vParam("format"))
	n := vParam("len")
	payload := make([]byte, n)
	if format == SMB_STRING_BUFFER_FORMAT_NULL_TERMINATED_OEM_STRING || format == SMB_STRING_BUFFER_FORMAT_NULL_TERMINATED_ASCII_STRING {
		payload = bytes.Repeat([]byte{'x'}, n) // NUL-terminated formats: no NUL inside
	}
	payload[0], payload[n-1] = vU8("first"), vU8("last")
	if format == SMB_STRING_BUFFER_FORMAT_NULL_TERMINATED_OEM_STRING || format == SMB_STRING_BUFFER_FORMAT_NULL_TERMINATED_ASCII_STRING {
		vAssume(payload[0] != 0 && payload[n-1] != 0)
	}
	s := NewSMB_STRING(payload)
	s.SetBufferFormat(format)
	enc, err := s.Marshal()
	vCheck(err == nil, "SMB_STRING-boundary/marshal-ok")
	var d SMB_STRING
	k, err := d.Unmarshal(withSuffix(enc))
	vCheck(err == nil, "SMB_STRING-boundary/unmarshal-ok")
	vCheck(k == len(enc), "SMB_STRING-boundary/consumed")
	vCheck(int(d.Length) == n && len(d.Buffer) == n, "SMB_STRING-boundary/length")
	if len(d.Buffer) == n {
		vCheck(d.Buffer[0] == payload[0] && d.Buffer[n-1] == payload[n-1], "SMB_STRING-boundary/ends")
	}
	vCover("end")
}
