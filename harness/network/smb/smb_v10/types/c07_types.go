package types

// C07 — every decoder of the SMB wire types is total on arbitrary input.

func H_C07_SMB_STRING() {
	data := vBytes("data", vParam("n"))
	var s SMB_STRING
	s.Unmarshal(data)
	vCover("end")
}

func H_C07_OEM_STRING() {
	data := vBytes("data", vParam("n"))
	o := NewOEM_STRING()
	o.Unmarshal(data)
	vCover("end")
}

func H_C07_SMB_DATE() {
	data := vBytes("data", vParam("n"))
	d := NewSMB_DATE()
	d.Unmarshal(data)
	vCover("end")
}

func H_C07_SMB_DIRECTORY_INFORMATION() {
	data := vBytes("data", vParam("n"))
	d := NewSMB_DIRECTORY_INFORMATION()
	d.Unmarshal(data)
	vCover("end")
}

func H_C07_SMB_FILE_ATTRIBUTES() {
	data := vBytes("data", vParam("n"))
	var a SMB_FILE_ATTRIBUTES
	a.Unmarshal(data)
	vCover("end")
}

func H_C07_SMB_NMPIPE_STATUS() {
	data := vBytes("data", vParam("n"))
	var s SMB_NMPIPE_STATUS
	s.Unmarshal(data)
	vCover("end")
}

func H_C07_SMB_RESUME_KEY() {
	data := vBytes("data", vParam("n"))
	r := NewSMB_RESUME_KEY()
	r.Unmarshal(data)
	vCover("end")
}

func H_C07_LOCKING_ANDX_RANGE32() {
	data := vBytes("data", vParam("n"))
	var l LOCKING_ANDX_RANGE32
	l.Unmarshal(data)
	vCover("end")
}

func H_C07_LOCKING_ANDX_RANGE64() {
	data := vBytes("data", vParam("n"))
	var l LOCKING_ANDX_RANGE64
	l.Unmarshal(data)
	vCover("end")
}

func H_C07_FILETIME() {
	data := vBytes("data", vParam("n"))
	var f FILETIME
	f.Unmarshal(data)
	vCover("end")
}
