package capabilities

var c19names = []struct {
	bit  Capabilities
	name string
}{ // alphabetical, as emitted
	{0x1000, "CAP_DFS"}, {0x8, "CAP_LARGE_FILES"}, {0x4000, "CAP_LARGE_READX"}, {0x80, "CAP_LEVEL_II_OPLOCKS"},
	{0x100, "CAP_LOCK_AND_READ"}, {0x2, "CAP_MPX_MODE"}, {0x200, "CAP_NT_FIND"}, {0x10, "CAP_NT_SMBS"},
	{0x1, "CAP_RAW_MODE"}, {0x20, "CAP_RPC_REMOTE_APIS"}, {0x40, "CAP_STATUS32"}, {0x4, "CAP_UNICODE"},
}

func H_C19_capabilities_string() {
	mask := uint32(vParam("window"))
	base := uint32(0)
	if vParam("others") == 1 {
		base = ^mask
	}
	w := Capabilities(base | (vU32("w") & mask))
	want := ""
	for _, e := range c19names {
		if w&e.bit != 0 {
			if want != "" {
				want += "|"
			}
			want += e.name
		}
	}
	if want == "" {
		want = "NONE"
	}
	vCheck(vStrEq(w.String(), want), "capabilities/String-is-exactly-the-named-set-bits")
	vCover("end")
}
