package header

import (
	"github.com/TheManticoreProject/Manticore/network/smb/smb_v10/message/commands/codes"
	"github.com/TheManticoreProject/Manticore/network/smb/smb_v10/message/header/flags"
	"github.com/TheManticoreProject/Manticore/network/smb/smb_v10/message/header/flags2"
	"github.com/TheManticoreProject/Manticore/network/smb/smb_v10/message/securityfeatures"
)

// C03 — the 32-byte SMB header (MS-CIFS 2.2.3.1): Protocol 0..3, Command 4, Status 5..8, Flags 9, Flags2 10..11,
// PIDHigh 12..13, SecurityFeatures 14..21, Reserved 22..23, TID 24..25, PIDLow 26..27, UID 28..29, MID 30..31; little-endian.

func c03le16(b []byte, o int) uint16 { return uint16(b[o]) | uint16(b[o+1])<<8 }

func H_C03_header() {
	h := NewHeader()
	copy(h.Protocol[:], vBytes("protocol", 4))
	h.Command = codes.CommandCode(vU8("command"))
	h.Status = vU32("status")
	h.Flags = flags.Flags(vU8("flags"))
	h.Flags2 = flags2.Flags2(vU16("flags2"))
	h.PIDHigh, h.Reserved, h.TID, h.PIDLow, h.UID, h.MID = vU16("pidhigh"), vU16("reserved"), vU16("tid"), vU16("pidlow"), vU16("uid"), vU16("mid")
	sf := vBytes("secfeat", 8)
	switch vParam("sf") {
	case 0:
		r := securityfeatures.NewSecurityFeaturesReserved()
		copy(r.Reserved[:], sf)
		h.SecurityFeatures = r
	case 1:
		s := securityfeatures.NewSecurityFeaturesSecuritySignature()
		copy(s.SecuritySignature[:], sf)
		h.SecurityFeatures = s
	default:
		c := securityfeatures.NewSecurityFeaturesConnectionlessTransport()
		c.Key = uint32(sf[0]) | uint32(sf[1])<<8 | uint32(sf[2])<<16 | uint32(sf[3])<<24
		c.CID = uint16(sf[4]) | uint16(sf[5])<<8
		c.SequenceNumber = uint16(sf[6]) | uint16(sf[7])<<8
		h.SecurityFeatures = c
	}
	raw, err := h.Marshal()
	vCheck(err == nil && len(raw) == 32, "C03/header/size-32")
	if err != nil || len(raw) != 32 {
		return
	}
	vCheck(vBytesEq(raw[0:4], h.Protocol[:]), "C03/header/protocol-at-0")
	vCheck(raw[4] == byte(h.Command), "C03/header/command-at-4")
	vCheck(uint32(raw[5])|uint32(raw[6])<<8|uint32(raw[7])<<16|uint32(raw[8])<<24 == h.Status, "C03/header/status-at-5-little-endian")
	vCheck(raw[9] == byte(h.Flags), "C03/header/flags-at-9")
	vCheck(c03le16(raw, 10) == uint16(h.Flags2), "C03/header/flags2-at-10-little-endian")
	vCheck(c03le16(raw, 12) == h.PIDHigh, "C03/header/pidhigh-at-12")
	vCheck(vBytesEq(raw[14:22], sf), "C03/header/security-features-at-14")
	vCheck(c03le16(raw, 22) == h.Reserved, "C03/header/reserved-at-22")
	vCheck(c03le16(raw, 24) == h.TID, "C03/header/tid-at-24")
	vCheck(c03le16(raw, 26) == h.PIDLow, "C03/header/pidlow-at-26")
	vCheck(c03le16(raw, 28) == h.UID, "C03/header/uid-at-28")
	vCheck(c03le16(raw, 30) == h.MID, "C03/header/mid-at-30")
	d := NewHeader()
	n, err := d.Unmarshal(raw)
	vCheck(err == nil && n == 32, "C03/header/unmarshal-ok")
	if err == nil {
		vCheck(d.Protocol == h.Protocol && d.Command == h.Command && d.Status == h.Status && d.Flags == h.Flags && d.Flags2 == h.Flags2, "C03/header/roundtrip-fields-1")
		vCheck(d.PIDHigh == h.PIDHigh && d.Reserved == h.Reserved && d.TID == h.TID && d.PIDLow == h.PIDLow && d.UID == h.UID && d.MID == h.MID, "C03/header/roundtrip-fields-2")
		again, err := d.Marshal()
		vCheck(err == nil && vBytesEq(again, raw), "C03/header/marshal-of-unmarshal-identity")
	}
	vCheck(uint32(h.GetPID()) == uint32(h.PIDHigh)<<16|uint32(h.PIDLow), "C03/header/GetPID-joins-high-and-low")
	p := vU32("newpid")
	h.SetPID(p)
	vCheck(uint32(h.GetPID()) == p && h.PIDHigh == uint16(p>>16) && h.PIDLow == uint16(p), "C03/header/SetPID-splits-high-and-low")
	vCheck(h.IsResponse() == (raw[9]&0x80 != 0) && h.IsRequest() == !h.IsResponse(), "C03/header/reply-flag-is-bit-7-of-flags")
	// the accessors read and write the fields they name, and nothing else: a header filled through them encodes like
	// one filled through the fields
	a := NewHeader()
	a.Protocol, a.Command, a.Status, a.Reserved, a.SecurityFeatures = h.Protocol, h.Command, h.Status, h.Reserved, h.SecurityFeatures
	a.SetFlags(uint8(h.Flags))
	a.SetFlags2(uint16(h.Flags2))
	a.SetTID(h.TID)
	a.SetUID(h.UID)
	a.SetMID(h.MID)
	a.SetPID(p)
	vCheck(a.GetTID() == h.TID && a.GetUID() == h.UID && a.GetMID() == h.MID && a.GetPID() == h.GetPID(), "C03/header/accessors-read-back")
	viaSetters, err := a.Marshal()
	direct, err2 := h.Marshal()
	vCheck(err == nil && err2 == nil && vBytesEq(viaSetters, direct), "C03/header/fields-set-through-accessors-encode-the-same")
	vCover("end")
}

// any 32 bytes: Marshal(Unmarshal(b)) == b
func H_C03_header_bytes() {
	b := vBytes("b", 32)
	h := NewHeader()
	n, err := h.Unmarshal(b)
	vCheck(err == nil && n == 32, "C03/header-bytes/unmarshal-ok")
	if err == nil {
		out, err := h.Marshal()
		vCheck(err == nil && vBytesEq(out, b), "C03/header-bytes/marshal-of-unmarshal-identity")
	}
	vCover("end")
}

// every constructor yields a header that starts with the protocol identifier 0xFF 'S' 'M' 'B', carries the security
// features interpretation its name says, and is otherwise zero
func H_C03_header_constructors() {
	var h *Header
	switch vParam("ctor") {
	case 0:
		h = NewHeader()
	case 1:
		h = NewHeaderWithSecurityFeaturesConnectionLess()
		_, ok := h.SecurityFeatures.(*securityfeatures.SecurityFeaturesConnectionlessTransport)
		vCheck(ok, "C03/header/ctor/connectionless-interpretation")
	default:
		h = NewHeaderWithSecurityFeaturesSecuritySignature()
		_, ok := h.SecurityFeatures.(*securityfeatures.SecurityFeaturesSecuritySignature)
		vCheck(ok, "C03/header/ctor/signature-interpretation")
	}
	raw, err := h.Marshal()
	vCheck(err == nil && len(raw) == 32, "C03/header/ctor/size-32")
	if err != nil || len(raw) != 32 {
		return
	}
	vCheck(raw[0] == 0xFF && raw[1] == 'S' && raw[2] == 'M' && raw[3] == 'B', "C03/header/ctor/protocol-identifier")
	for i := 14; i < 24; i++ {
		vCheck(raw[i] == 0, "C03/header/ctor/security-features-and-reserved-zero")
	}
	vCover("end")
}
