package flags2

var c19names = []struct {
	bit  Flags2
	name string
}{ // alphabetical, as emitted; the library gives the reserved bits 4, 6, 8, 9 the names of their declared constants
	{1 << 3, "COMPRESSED"}, {1 << 12, "DFS"}, {1 << 1, "EXTENDED_ATTRIBUTES"}, {1 << 11, "EXTENDED_SECURITY"},
	{1 << 0, "LONG_NAMES_ALLOWED"}, {1 << 7, "LONG_NAMES_USED"}, {1 << 14, "NT_STATUS_ERROR_CODES"}, {1 << 13, "PAGING_IO"},
	{1 << 10, "REPARSE_PATH"}, {1 << 4, "RESERVED_4"}, {1 << 6, "RESERVED_6"}, {1 << 8, "RESERVED_8"}, {1 << 9, "RESERVED_9"},
	{1 << 2, "SECURITY_SIGNATURE"}, {1 << 5, "SECURITY_SIGNATURE_REQUIRED"}, {1 << 15, "UNICODE"},
}

// the word is symbolic inside the window (instance parameter), fixed to all-zero or all-one outside it
func c19word() Flags2 {
	mask := uint16(vParam("window"))
	base := uint16(0)
	if vParam("others") == 1 {
		base = ^mask
	}
	return Flags2(base | (vU16("w") & mask))
}

func H_C19_flags2_string() {
	w := c19word()
	want := ""
	for _, e := range c19names {
		if w&e.bit != 0 {
			if want != "" {
				want += "|"
			}
			want += e.name
		}
	}
	got := w.String()
	if want == "" {
		// no named bit: the library prints a placeholder of its choice, but never a flag name
		for _, e := range c19names {
			vCheck(!vStrEq(got, e.name), "flags2/String-no-name-when-no-named-bit")
		}
	} else {
		vCheck(vStrEq(got, want), "flags2/String-is-exactly-the-named-set-bits")
	}
	vCover("end")
}

func H_C19_flags2_predicates() {
	w, x := Flags2(vU16("w")), Flags2(vU16("x"))
	preds := []struct {
		f    func(Flags2) bool
		mask Flags2
		id   string
	}{
		{Flags2.IsLongNamesAllowed, FLAGS2_LONG_NAMES_ALLOWED, "IsLongNamesAllowed"}, {Flags2.IsExtendedAttributes, FLAGS2_EXTENDED_ATTRIBUTES, "IsExtendedAttributes"},
		{Flags2.IsSecuritySignature, FLAGS2_SECURITY_SIGNATURE, "IsSecuritySignature"}, {Flags2.IsCompressed, FLAGS2_COMPRESSED, "IsCompressed"},
		{Flags2.IsSecuritySignatureRequired, FLAGS2_SECURITY_SIGNATURE_REQUIRED, "IsSecuritySignatureRequired"}, {Flags2.IsLongNamesUsed, FLAGS2_LONG_NAMES_USED, "IsLongNamesUsed"},
		{Flags2.IsReparsePathUsed, FLAGS2_REPARSE_PATH, "IsReparsePathUsed"}, {Flags2.IsExtendedSecurity, FLAGS2_EXTENDED_SECURITY, "IsExtendedSecurity"},
		{Flags2.IsDfs, FLAGS2_DFS, "IsDfs"}, {Flags2.IsPagingIO, FLAGS2_PAGING_IO, "IsPagingIO"},
		{Flags2.IsNTStatusErrorCodes, FLAGS2_NT_STATUS_ERROR_CODES, "IsNTStatusErrorCodes"}, {Flags2.IsUnicode, FLAGS2_UNICODE, "IsUnicode"},
	}
	for _, p := range preds {
		vCheck(vImplies(w&p.mask == x&p.mask, p.f(w) == p.f(x)), "flags2/"+p.id+"/depends-only-on-own-bit")
		vCheck(p.f(0) != p.f(p.mask), "flags2/"+p.id+"/depends-on-own-bit")
	}
	vCover("end")
}
