package header

import (
	"github.com/TheManticoreProject/Manticore/network/smb/smb_v10/message/commands/codes"
	"github.com/TheManticoreProject/Manticore/network/smb/smb_v10/message/header/flags"
	"github.com/TheManticoreProject/Manticore/network/smb/smb_v10/message/header/flags2"
	"github.com/TheManticoreProject/Manticore/network/smb/smb_v10/message/securityfeatures"
)

// C05 — the header against an independent encoder/decoder written from MS-CIFS 2.2.3.1 (all multi-byte fields little-endian).

func c05put16(b []byte, o int, v uint16) { b[o], b[o+1] = byte(v), byte(v>>8) }

func H_C05_header() {
	proto := vBytes("protocol", 4)
	cmd, fl := vU8("command"), vU8("flags")
	status := vU32("status")
	fl2, pidhigh, reserved, tid, pidlow, uid, mid := vU16("flags2"), vU16("pidhigh"), vU16("reserved"), vU16("tid"), vU16("pidlow"), vU16("uid"), vU16("mid")
	sf := vBytes("secfeat", 8)
	// reference encoder
	ref := make([]byte, 32)
	copy(ref[0:4], proto)
	ref[4] = cmd
	ref[5], ref[6], ref[7], ref[8] = byte(status), byte(status>>8), byte(status>>16), byte(status>>24)
	ref[9] = fl
	c05put16(ref, 10, fl2)
	c05put16(ref, 12, pidhigh)
	copy(ref[14:22], sf)
	c05put16(ref, 22, reserved)
	c05put16(ref, 24, tid)
	c05put16(ref, 26, pidlow)
	c05put16(ref, 28, uid)
	c05put16(ref, 30, mid)
	// the library decodes the reference bytes to the same field values
	h := NewHeader()
	n, err := h.Unmarshal(ref)
	vCheck(err == nil && n == 32, "C05/header/reference-encoding-accepted")
	if err != nil {
		return
	}
	vCheck(vBytesEq(h.Protocol[:], proto) && h.Command == codes.CommandCode(cmd) && h.Flags == flags.Flags(fl), "C05/header/decoded-protocol-command-flags")
	vCheck(h.Status == status, "C05/header/decoded-status-little-endian")
	vCheck(h.Flags2 == flags2.Flags2(fl2), "C05/header/decoded-flags2-little-endian")
	vCheck(h.PIDHigh == pidhigh && h.PIDLow == pidlow, "C05/header/decoded-pid-halves-little-endian")
	vCheck(h.Reserved == reserved && h.TID == tid && h.UID == uid && h.MID == mid, "C05/header/decoded-reserved-tid-uid-mid-little-endian")
	// and the library's own encoding of these field values is the reference encoding
	g := NewHeader()
	copy(g.Protocol[:], proto)
	g.Command, g.Status, g.Flags, g.Flags2 = codes.CommandCode(cmd), status, flags.Flags(fl), flags2.Flags2(fl2)
	g.PIDHigh, g.Reserved, g.TID, g.PIDLow, g.UID, g.MID = pidhigh, reserved, tid, pidlow, uid, mid
	r := securityfeatures.NewSecurityFeaturesReserved()
	copy(r.Reserved[:], sf)
	g.SecurityFeatures = r
	raw, err := g.Marshal()
	vCheck(err == nil && vBytesEq(raw, ref), "C05/header/encoding-equals-the-reference-encoding")
	// a 32-bit PID set through the accessor reaches the wire as PIDHigh (offset 12) and PIDLow (offset 26), both little-endian
	pid := vU32("pid32")
	g.SetPID(pid)
	c05put16(ref, 12, uint16(pid>>16))
	c05put16(ref, 26, uint16(pid))
	raw, err = g.Marshal()
	vCheck(err == nil && vBytesEq(raw, ref), "C05/header/SetPID-encoding-equals-the-reference-encoding")
	vCover("end")
}
