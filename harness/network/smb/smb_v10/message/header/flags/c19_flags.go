package flags

// C19 — SMB header Flags: decomposition into exactly the named set bits (MS-CIFS 2.2.3.1), predicates depend on their own bit only.

var c19names = []struct {
	bit  Flags
	name string
}{ // alphabetical, as emitted
	{0x02, "BUF_AVAIL"}, {0x10, "CANONICALIZED_PATHS"}, {0x08, "CASE_INSENSITIVE"}, {0x01, "LOCK_AND_READ_OK"},
	{0x40, "OPBATCH"}, {0x20, "OPLOCK"}, {0x80, "REPLY"}, {0x04, "RESERVED"},
}

func H_C19_flags_string() {
	w := Flags(vU16("w"))
	want := ""
	for _, e := range c19names {
		if w&e.bit != 0 {
			if want != "" {
				want += "|"
			}
			want += e.name
		}
	}
	if want == "" {
		want = "NONE"
	}
	vCheck(vStrEq(w.String(), want), "flags/String-is-exactly-the-named-set-bits")
	vCover("end")
}

func H_C19_flags_predicates() {
	w, x := Flags(vU16("w")), Flags(vU16("x"))
	preds := []struct {
		f    func(Flags) bool
		mask Flags
		id   string
	}{
		{Flags.IsLockAndReadOk, FLAGS_LOCK_AND_READ_OK, "IsLockAndReadOk"}, {Flags.IsBufAvail, FLAGS_BUF_AVAIL, "IsBufAvail"},
		{Flags.IsReserved, FLAGS_RESERVED, "IsReserved"}, {Flags.IsCaseInsensitive, FLAGS_CASE_INSENSITIVE, "IsCaseInsensitive"},
		{Flags.IsCanonicalizedPaths, FLAGS_CANONICALIZED_PATHS, "IsCanonicalizedPaths"}, {Flags.IsOplock, FLAGS_OPLOCK, "IsOplock"},
		{Flags.IsOplockBatch, FLAGS_OPBATCH, "IsOplockBatch"}, {Flags.IsReply, FLAGS_REPLY, "IsReply"},
	}
	for _, p := range preds {
		// depends only on its own bit, and does depend on it
		vCheck(vImplies(w&p.mask == x&p.mask, p.f(w) == p.f(x)), "flags/"+p.id+"/depends-only-on-own-bit")
		vCheck(p.f(0) != p.f(p.mask), "flags/"+p.id+"/depends-on-own-bit")
	}
	vCover("end")
}
