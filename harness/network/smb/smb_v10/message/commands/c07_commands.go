package commands

import (
	"github.com/TheManticoreProject/Manticore/network/smb/smb_v10/message/commands/codes"
	"github.com/TheManticoreProject/Manticore/network/smb/smb_v10/message/commands/command_interface"
)

// C07 — every command decoder reachable from the request/response factories is total.
// The command structure comes from the library's own factory, so the set of decoders
// follows the current source.
func H_C07_Command() {
	var c command_interface.CommandInterface
	var err error
	code := codes.CommandCode(vParam("cmd"))
	if vParam("resp") == 1 {
		c, err = CreateResponseCommand(code)
	} else {
		c, err = CreateRequestCommand(code)
	}
	if err != nil {
		vCover("end")
		return
	}
	c.Init()
	c.Unmarshal(vBytes("data", vParam("n")))
	vCover("end")
}
