package commands

import (
	"github.com/TheManticoreProject/Manticore/network/smb/smb_v10/message/commands/codes"
	"github.com/TheManticoreProject/Manticore/network/smb/smb_v10/message/commands/command_interface"
)

// C07 — every command decoder reachable from the request/response factories is total.
// The command structure comes from the library's own factory, so the set of decoders
// follows the current source.
func H_C07_Command() {
	var c command_interface.CommandInterface
	var err error
	code := codes.CommandCode(vParam("cmd"))
	if vParam("resp") == 1 {
		c, err = CreateResponseCommand(code)
	} else {
		c, err = CreateRequestCommand(code)
	}
	if err != nil {
		vCover("end")
		return
	}
	c.Init()
	c.Unmarshal(vBytes("data", vParam("n")))
	vCover("end")
}

// H_C07_Command_framed: the same totality obligation on inputs that pass the outer framing, so that the field decoders
// behind it are reached: WordCount and ByteCount take the values the command's own encoding has (for buffers of `len`
// bytes, plus `dw` words / `db` bytes), every parameter and data byte — including every embedded length, count and offset
// field — is arbitrary.
func H_C07_Command_framed() {
	var c, d command_interface.CommandInterface
	var err error
	code := codes.CommandCode(vParam("cmd"))
	if vParam("resp") == 1 {
		c, err = CreateResponseCommand(code)
		d, _ = CreateResponseCommand(code)
	} else {
		c, err = CreateRequestCommand(code)
		d, _ = CreateRequestCommand(code)
	}
	if err != nil {
		vCover("end")
		return
	}
	VFill(c, vParam("len"))
	own, err := c.Marshal()
	if err != nil || len(own) < 3 {
		vCover("end")
		return
	}
	w := int(own[0]) + vParam("dw")
	b := len(own) - 3 - 2*int(own[0]) + vParam("db")
	if w < 0 || w > 255 || b < 0 {
		vCover("end")
		return
	}
	in := []byte{byte(w)}
	in = append(in, vBytes("words", 2*w)...)
	in = append(in, byte(b), byte(b>>8))
	in = append(in, vBytes("bytes", b)...)
	d.Init()
	d.Unmarshal(in)
	vCover("end")
}
