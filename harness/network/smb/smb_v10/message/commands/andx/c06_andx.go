package andx

import "github.com/TheManticoreProject/Manticore/network/smb/smb_v10/message/commands/codes"

func H_C06_AndX() {
	a := &AndX{AndXCommand: codes.CommandCode(vU8("cmd")), AndXReserved: vU8("reserved"), AndXOffset: vU16("offset")}
	enc, err := a.Marshal()
	vCheck(err == nil, "AndX/marshal-ok")
	vCheck(len(enc) == 4, "AndX/size")
	in := append(append([]byte{}, enc...), vBytes("suffix", vParam("sfx"))...)
	d := NewAndX()
	n, err := d.Unmarshal(in)
	vCheck(err == nil, "AndX/unmarshal-ok")
	vCheck(n == len(enc), "AndX/consumed")
	vCheck(*d == *a, "AndX/fields")
	vCover("end")
}
