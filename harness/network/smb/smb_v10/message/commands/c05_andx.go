package commands

import (
	"github.com/TheManticoreProject/Manticore/network/smb/smb_v10/message/commands/andx"
	"github.com/TheManticoreProject/Manticore/network/smb/smb_v10/message/commands/codes"
)

// C05 — MS-CIFS 2.2.3.4: an AndX block is UCHAR AndXCommand, UCHAR AndXReserved, USHORT AndXOffset (little-endian),
// and it is the first two words of the parameter block of every AndX command.

func H_C05_andx_block() {
	a := andx.NewAndX()
	a.AndXCommand = codes.CommandCode(vU8("command"))
	a.AndXReserved = vU8("reserved")
	a.AndXOffset = vU16("offset")
	raw, err := a.Marshal()
	vCheck(err == nil && len(raw) == 4, "C05/andx/block-is-4-bytes")
	if err != nil || len(raw) != 4 {
		return
	}
	vCheck(raw[0] == byte(a.AndXCommand) && raw[1] == a.AndXReserved, "C05/andx/command-then-reserved")
	// reference decoder direction
	b := andx.NewAndX()
	n, err := b.Unmarshal([]byte{byte(a.AndXCommand), a.AndXReserved, byte(a.AndXOffset), byte(a.AndXOffset >> 8)})
	vCheck(err == nil && n == 4 && b.AndXCommand == a.AndXCommand && b.AndXReserved == a.AndXReserved, "C05/andx/reference-block-accepted")
	vCheck(raw[2] == byte(a.AndXOffset) && raw[3] == byte(a.AndXOffset>>8), "C05/andx/offset-little-endian")
	vCover("end")
}

// the same block as the first two words of a chained command (SMB_COM_SESSION_SETUP_ANDX request followed by a tree connect)
func H_C05_andx_in_command() {
	c := NewSessionSetupAndxRequest()
	vfillSessionSetupAndxRequest(c, 0)
	a := andx.NewAndX()
	a.AndXCommand = codes.CommandCode(vU8("command"))
	a.AndXReserved = vU8("reserved")
	a.AndXOffset = vU16("offset")
	c.SetAndX(a)
	raw, err := c.Marshal()
	vCheck(err == nil && len(raw) >= 5, "C05/andx-in-command/marshal-ok")
	if err != nil || len(raw) < 5 {
		return
	}
	vCheck(raw[1] == byte(a.AndXCommand) && raw[2] == a.AndXReserved, "C05/andx-in-command/command-then-reserved")
	vCheck(raw[3] == byte(a.AndXOffset) && raw[4] == byte(a.AndXOffset>>8), "C05/andx-in-command/offset-little-endian")
	vCover("end")
}
