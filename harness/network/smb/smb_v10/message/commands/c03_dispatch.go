package commands

import (
	"github.com/TheManticoreProject/Manticore/network/smb/smb_v10/message/commands/codes"
)

// camel turns an MS-CIFS command name such as "WRITE_ANDX" into "WriteAndx".
func c03camel(s string) string {
	out := []byte{}
	up := true
	for i := 0; i < len(s); i++ {
		ch := s[i]
		if ch == '_' {
			up = true
			continue
		}
		if ch >= 'A' && ch <= 'Z' && !up {
			ch += 32
		}
		up = false
		out = append(out, ch)
	}
	return string(out)
}

// C03 — type dispatch: for every command code 0..255 and both directions the factory returns an error or a command
// whose own code equals the requested one and whose type is the Request/Response variant MS-CIFS names for that code.
func H_C03_dispatch() {
	code := codes.CommandCode(vParam("cmd"))
	resp := vParam("resp") == 1
	var name, suffix string
	if resp {
		c, err := CreateResponseCommand(code)
		if err != nil {
			vCover("end")
			return
		}
		vCheck(c.GetCommandCode() == code, "C03/dispatch/response/command-code")
		name, suffix = c03TypeName(c), "Response"
	} else {
		c, err := CreateRequestCommand(code)
		if err != nil {
			vCover("end")
			return
		}
		vCheck(c.GetCommandCode() == code, "C03/dispatch/request/command-code")
		name, suffix = c03TypeName(c), "Request"
	}
	want := c03camel(code.String()) + suffix
	// MS-CIFS 2.2.4.25.2 / 2.2.4.26: the response under SMB_COM_WRITE_RAW is the interim server response; the final
	// response of the sequence is sent under the command code SMB_COM_WRITE_COMPLETE
	if code == codes.SMB_COM_WRITE_RAW && resp {
		want = "WriteRawInterim"
	}
	if code == codes.SMB_COM_WRITE_COMPLETE && resp {
		want = "WriteRawFinal"
	}
	vCheck(name == want, "C03/dispatch/type-is-the-variant-the-code-designates")
	vCover("end")
}
