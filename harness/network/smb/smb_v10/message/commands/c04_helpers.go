package commands

import (
	"github.com/TheManticoreProject/Manticore/network/smb/smb_v10/message/commands/andx"
	"github.com/TheManticoreProject/Manticore/network/smb/smb_v10/message/commands/codes"
	"github.com/TheManticoreProject/Manticore/network/smb/smb_v10/types"
)

// Helpers of the generated per-command harnesses (C03 framing, C04 slots and round trip, C05 MS-CIFS encoding).

// splitBlocks reads WordCount / ByteCount back from the emitted bytes: len(raw) = 1 + 2*words + 2 + bytes.
func splitBlocks(raw []byte, n string) ([]byte, []byte, bool) {
	vCheck(len(raw) >= 3, "C03/"+n+"/has-word-count-and-byte-count")
	if len(raw) < 3 {
		return nil, nil, false
	}
	wc := int(raw[0])
	vCheck(len(raw) >= 1+2*wc+2, "C03/"+n+"/parameter-block-fits")
	if len(raw) < 1+2*wc+2 {
		return nil, nil, false
	}
	bc := int(raw[1+2*wc]) | int(raw[2+2*wc])<<8
	vCheck(len(raw) == 1+2*wc+2+bc, "C03/"+n+"/length-is-1+2*words+2+bytes")
	if len(raw) != 1+2*wc+2+bc {
		return nil, nil, false
	}
	return raw[1 : 1+2*wc], raw[3+2*wc:], true
}

// symAndX: an arbitrary AndX block.
func symAndX(n string) *andx.AndX {
	a := andx.NewAndX()
	a.AndXCommand = codes.CommandCode(vU8(n + ".andx.command"))
	a.AndXReserved = vU8(n + ".andx.reserved")
	a.AndXOffset = vU16(n + ".andx.offset")
	return a
}

// checkAndX: the first two parameter words are AndXCommand(1) AndXReserved(1) AndXOffset(2). The byte order of the
// offset is C05's subject (decided once, for the block itself and inside one command: H_C05_andx_*); here the slot is
// required to hold the offset in either order so that a wrong position or a dropped value is still seen.
func checkAndX(params []byte, a *andx.AndX, n string) int {
	vCheck(len(params) >= 4 && a != nil, "C05/"+n+"/andx/block-is-the-first-two-words")
	if len(params) >= 4 && a != nil {
		vCheck(params[0] == byte(a.AndXCommand), "C04/"+n+"/andx/command-slot")
		vCheck(params[1] == a.AndXReserved, "C04/"+n+"/andx/reserved-slot")
		le := vAnd(params[2] == byte(a.AndXOffset), params[3] == byte(a.AndXOffset>>8))
		be := vAnd(params[3] == byte(a.AndXOffset), params[2] == byte(a.AndXOffset>>8))
		vCheck(vOr(le, be), "C04/"+n+"/andx/offset-slot")
		vCheck(params[0] == byte(a.AndXCommand) && params[1] == a.AndXReserved, "C05/"+n+"/andx/command-then-reserved")
	}
	return 4
}

// checkInt: the w bytes at pos are the field (C04: position, width, order) in little-endian byte order (C05).
func checkInt(blk []byte, pos int, v uint64, w int, id string) int {
	vCheck(pos+w <= len(blk), "C04/"+id+"/slot-present")
	if pos+w > len(blk) {
		return pos + w
	}
	le, be := true, true
	for i := 0; i < w; i++ {
		le = vAnd(le, blk[pos+i] == byte(v>>uint(8*i)))
		be = vAnd(be, blk[pos+i] == byte(v>>uint(8*(w-1-i))))
	}
	vCheck(vOr(le, be), "C04/"+id+"/slot-holds-exactly-this-field")
	vCheck(le, "C05/"+id+"/little-endian")
	return pos + w
}

// checkBytes: the buffer / structure encoding appears verbatim at pos.
func checkBytes(blk []byte, pos int, enc []byte, id string) int {
	vCheck(pos+len(enc) <= len(blk), "C04/"+id+"/slot-present")
	if pos+len(enc) > len(blk) {
		return pos + len(enc)
	}
	vCheck(vBytesEq(blk[pos:pos+len(enc)], enc), "C04/"+id+"/slot-holds-exactly-this-field")
	vCheck(vBytesEq(blk[pos:pos+len(enc)], enc), "C05/"+id+"/emitted-at-the-place-MS-CIFS-gives-it")
	return pos + len(enc)
}

func noNUL(b []byte) []byte {
	for i := range b {
		vAssume(b[i] != 0)
	}
	return b
}

func symDate(tag string) types.SMB_DATE {
	w := vU16(tag)
	return types.SMB_DATE{Year: 1980 + (w >> 9), Month: uint8((w >> 5) & 0xF), Day: uint8(w & 0x1F)}
}

// coversParams: the fixed fields end at pos; a parameter block is a whole number of words, so an odd-length field
// sequence is followed by exactly one zero pad byte.
func coversParams(params []byte, pos int) bool {
	if pos == len(params) {
		return true
	}
	return pos%2 == 1 && pos+1 == len(params) && params[pos] == 0
}

// noNUL16: no UTF-16 NUL character inside a null-terminated Unicode string.
func noNUL16(b []byte) []byte {
	for i := 0; i+1 < len(b); i += 2 {
		vAssume(vOr(b[i] != 0, b[i+1] != 0))
	}
	return b
}

// symDirInfo: one SMB_DIRECTORY_INFORMATION entry with symbolic contents (a full 12-character name without NUL or
// space, so that the space padding of short names does not blur the comparison).
func symDirInfo(tag string) types.SMB_DIRECTORY_INFORMATION {
	v := types.NewSMB_DIRECTORY_INFORMATION()
	v.ResumeKey = *types.NewSMB_RESUME_KEY()
	v.ResumeKey.Reserved = vU8(tag + ".reserved")
	copy(v.ResumeKey.ServerState[:], vBytes(tag+".server", 16))
	copy(v.ResumeKey.ClientState[:], vBytes(tag+".client", 4))
	v.FileAttributes = vU8(tag + ".attr")
	v.LastWriteTime = types.SMB_TIME{DwLowDateTime: vU32(tag + ".tlo"), DwHighDateTime: vU32(tag + ".thi")}
	v.LastWriteDate = symDate(tag + ".date")
	v.FileSize = types.ULONG(vU32(tag + ".size"))
	name := vBytes(tag+".name", 12)
	for i := range name {
		vAssume(name[i] != 0)
		vAssume(name[i] != ' ')
	}
	v.FileName = *types.NewOEM_STRINGFromString(string(name))
	return *v
}

// Buffers handed to a command are cut from larger arrays of the caller's (two more bytes follow each of them); encoding
// the command reads them only, so the bytes behind every buffer are the same afterwards.
type c04spare struct {
	backing []byte
	n       int
	t0, t1  byte
}

var c04spares []c04spare

func vSpare(tag string, n int) []byte {
	b := vBytes(tag, n+2)
	c04spares = append(c04spares, c04spare{b, n, b[n], b[n+1]})
	return b[:n]
}

func checkSpares(id string) {
	for _, s := range c04spares {
		vCheck(s.backing[s.n] == s.t0 && s.backing[s.n+1] == s.t1, "C04/"+id+"/marshal-leaves-the-bytes-behind-the-caller's-buffers-alone")
	}
	c04spares = nil
}
