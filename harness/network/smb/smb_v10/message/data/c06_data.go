package data

func H_C06_Data() {
	n := vParam("len")
	raw := vBytes("bytes", n)
	p := NewData()
	switch vParam("via") {
	case 1:
		p.SetData(raw)
	case 2:
		// in two pieces
		p.Add(raw[:n/2])
		p.Add(raw[n/2:])
	default:
		p.Add(raw)
	}
	vCheck(int(p.Size()) == n, "Data/Size-is-the-number-of-bytes")
	enc, err := p.Marshal()
	vCheck(err == nil, "Data/marshal-ok")
	vCheck(len(enc) == 2+n, "Data/size")
	in := append(append([]byte{}, enc...), vBytes("suffix", vParam("sfx"))...)
	d := NewData()
	d.Add(vBytes("prev", vParam("prev"))) // a reused receiver that already holds an earlier block
	k, err := d.Unmarshal(in)
	vCheck(err == nil, "Data/unmarshal-ok")
	vCheck(k == len(enc), "Data/consumed")
	vCheck(int(d.ByteCount) == n, "Data/bytecount")
	vCheck(vBytesEq(d.GetBytes(), raw), "Data/bytes")
	vCover("end")
}
