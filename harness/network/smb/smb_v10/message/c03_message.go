package message

import (
	"github.com/TheManticoreProject/Manticore/network/smb/smb_v10/message/commands"
	"github.com/TheManticoreProject/Manticore/network/smb/smb_v10/message/commands/codes"
	"github.com/TheManticoreProject/Manticore/network/smb/smb_v10/message/commands/command_interface"
	"github.com/TheManticoreProject/Manticore/network/smb/smb_v10/message/header/flags"
)

// C03 — whole messages: encode, decode, same header and a command of the same code and direction; framing arithmetic.
func H_C03_message() {
	code := codes.CommandCode(vParam("cmd"))
	resp := vParam("resp") == 1
	var c command_interface.CommandInterface
	var err error
	if resp {
		c, err = commands.CreateResponseCommand(code)
	} else {
		c, err = commands.CreateRequestCommand(code)
	}
	if err != nil {
		vCover("end")
		return
	}
	// fields filled like the per-structure harnesses do (buffers of len bytes, length fields consistent)
	commands.VFill(c, vParam("len"))
	m := NewMessage()
	m.Header.Status = vU32("status")
	f := flags.Flags(vU8("flags"))
	if resp {
		f |= 0x80
	} else {
		f &^= 0x80
	}
	m.Header.Flags = f
	m.Header.TID, m.Header.UID, m.Header.MID, m.Header.PIDLow, m.Header.PIDHigh = vU16("tid"), vU16("uid"), vU16("mid"), vU16("pidlow"), vU16("pidhigh")
	m.AddCommand(c)
	raw, err := m.Marshal()
	vCheck(err == nil, "C03/message/marshal-ok")
	if err != nil {
		return
	}
	vCheck(len(raw) >= 35, "C03/message/has-header-and-both-counts")
	if len(raw) < 35 {
		return
	}
	wc := int(raw[32])
	vCheck(len(raw) >= 33+2*wc+2, "C03/message/parameter-block-fits")
	if len(raw) < 33+2*wc+2 {
		return
	}
	bc := int(raw[33+2*wc]) | int(raw[34+2*wc])<<8
	vCheck(len(raw) == 32+1+2*wc+2+bc, "C03/message/length-is-32+1+2*words+2+bytes")
	vCheck(raw[4] == byte(code), "C03/message/header-command-is-the-command-code")
	// the receiving message is reused: it already carries an earlier (different) command and header
	d := NewMessage()
	if prev, perr := commands.CreateRequestCommand(codes.SMB_COM_ECHO); perr == nil {
		d.AddCommand(prev)
		d.Header.MID = vU16("prev.mid")
	}
	err = d.Unmarshal(raw)
	vCheck(err == nil, "C03/message/unmarshal-ok")
	if err != nil {
		return
	}
	vCheck(d.Header.Command == code && d.Header.Status == m.Header.Status && d.Header.Flags == m.Header.Flags, "C03/message/header-roundtrip-1")
	vCheck(d.Header.TID == m.Header.TID && d.Header.UID == m.Header.UID && d.Header.MID == m.Header.MID && d.Header.PIDLow == m.Header.PIDLow && d.Header.PIDHigh == m.Header.PIDHigh, "C03/message/header-roundtrip-2")
	vCheck(d.Command != nil, "C03/message/decoded-command-present")
	if d.Command != nil {
		vCheck(d.Command.GetCommandCode() == code, "C03/message/decoded-command-code")
		// same factory, same direction: decoding again through the factory yields the same variant
		var again command_interface.CommandInterface
		if resp {
			again, _ = commands.CreateResponseCommand(code)
		} else {
			again, _ = commands.CreateRequestCommand(code)
		}
		vCheck(again != nil && vSameType(d.Command, again) && vSameType(d.Command, c), "C03/message/decoded-command-is-the-designated-variant")
	}
	second, err := m.Marshal()
	vCheck(err == nil && vBytesEq(second, raw), "C03/message/second-marshal-identical")
	// the same bytes with the reply flag flipped designate the other direction: they decode to that direction's
	// structure or not at all (in particular when the code has no structure for that direction)
	flipped := append([]byte{}, raw...)
	flipped[9] ^= 0x80
	o := NewMessage()
	if o.Unmarshal(flipped) == nil {
		var other command_interface.CommandInterface
		var oerr error
		if resp {
			other, oerr = commands.CreateRequestCommand(code)
		} else {
			other, oerr = commands.CreateResponseCommand(code)
		}
		vCheck(oerr == nil && other != nil && o.Command != nil && vSameType(o.Command, other), "C03/message/reply-flag-selects-the-direction-of-the-decoded-structure")
	}
	vCover("end")
}

// Further commands added to a message are chained behind the first one: the header keeps designating the first command,
// whose blocks follow the header.
func H_C03_message_chain() {
	code := codes.CommandCode(vParam("cmd"))
	var c command_interface.CommandInterface
	var err error
	if vParam("resp") == 1 {
		c, err = commands.CreateResponseCommand(code)
	} else {
		c, err = commands.CreateRequestCommand(code)
	}
	if err != nil {
		vCover("end")
		return
	}
	m := NewMessage()
	m.AddCommand(c)
	for _, follow := range []codes.CommandCode{codes.SMB_COM_ECHO, codes.SMB_COM_TREE_DISCONNECT} {
		if nx, nerr := commands.CreateRequestCommand(follow); nerr == nil {
			m.AddCommand(nx)
		}
	}
	vCheck(m.Header.Command == code, "C03/message/header-designates-the-first-command-of-a-chain")
	vCheck(m.Command == c, "C03/message/first-command-stays-first")
	hb, err := m.Header.Marshal()
	vCheck(err == nil && len(hb) == 32 && hb[4] == byte(code), "C03/message/chain-header-byte-4")
	vCover("end")
}
