package parameters

func H_C06_Parameters() {
	wc := vParam("wc")
	raw := vBytes("words", 2*wc)
	p := NewParameters()
	if vParam("via") == 1 {
		// the block built word by word
		for i := 0; i < wc; i++ {
			p.AddWord(uint16(raw[2*i])<<8 | uint16(raw[2*i+1]))
		}
	} else {
		p.AddWordsFromBytesStream(raw)
	}
	vCheck(int(p.Size()) == wc, "Parameters/Size-is-the-number-of-words")
	enc, err := p.Marshal()
	vCheck(err == nil, "Parameters/marshal-ok")
	vCheck(len(enc) == 1+2*wc, "Parameters/size")
	in := append(append([]byte{}, enc...), vBytes("suffix", vParam("sfx"))...)
	d := NewParameters()
	d.AddWordsFromBytesStream(vBytes("prev", 2*vParam("prev"))) // a reused receiver that already holds earlier words
	n, err := d.Unmarshal(in)
	vCheck(err == nil, "Parameters/unmarshal-ok")
	vCheck(n == len(enc), "Parameters/consumed")
	vCheck(int(d.WordCount) == wc, "Parameters/wordcount")
	vCheck(len(d.Words) == wc, "Parameters/words-len")
	if len(d.Words) == wc {
		for i := 0; i < wc; i++ {
			vCheck(d.Words[i] == p.Words[i], "Parameters/word")
		}
	}
	vCheck(vBytesEq(d.GetBytes(), raw), "Parameters/bytes")
	vCover("end")
}
