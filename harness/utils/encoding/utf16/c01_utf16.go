package utf16

// C01 — UTF-16LE encoding of every valid-UTF-8 string shape (code points of 1..4 UTF-8 bytes, incl. non-BMP).
func H_C01_utf16() {
	s, cps := symText("c", vParam("shape"))
	got := EncodeUTF16LE(s)
	vCheck(vBytesEq(got, refUTF16LE(cps)), "utf16/encode-equals-reference")
	back := DecodeUTF16LE(got)
	vCheck(vStrEq(back, s), "utf16/decode-of-encode-identity")
	vCover("end")
}
