#!/usr/bin/env python3
"""kf.py fixed <prop> <commit> <key> <what>   |   kf.py open <prop> <key> <what>"""
import json,sys
p='/verif/known_findings.json'
d=json.load(open(p))
mode,prop=sys.argv[1],sys.argv[2]
if mode=='fixed':
    commit,key,what=sys.argv[3],sys.argv[4],sys.argv[5]
    d['findings'].append({"property":prop,"key":key,"status":"fixed","commit":commit,"what":f"fixed: property={prop} {commit} {what}"})
else:
    key,what=sys.argv[3],sys.argv[4]
    d['findings'].append({"property":prop,"key":key,"status":"open","what":what})
json.dump(d,open(p,'w'),indent=1)
