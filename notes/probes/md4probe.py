import z3, time, sys
def rol(x,s): return z3.RotateLeft(x,s)
def rol_impl(x,s): return (x<<s)|z3.LShR(x,32-s)
X=[z3.BitVec(f'x{i}',32) for i in range(16)]
A,B,C,D=[z3.BitVec(n,32) for n in 'ABCD']
def impl():
    a,b,c,d=A,B,C,D
    ff=lambda a,b,c,d,x,s: rol_impl(a+(d^(b&(c^d)))+x,s)
    gg=lambda a,b,c,d,x,s: rol_impl(a+((b&c)|(d&(b|c)))+x+0x5a827999,s)
    hh=lambda a,b,c,d,x,s: rol_impl(a+(b^c^d)+x+0x6ed9eba1,s)
    for i in range(0,16,4):
        a=ff(a,b,c,d,X[i],3); d=ff(d,a,b,c,X[i+1],7); c=ff(c,d,a,b,X[i+2],11); b=ff(b,c,d,a,X[i+3],19)
    for i in range(4):
        a=gg(a,b,c,d,X[i],3); d=gg(d,a,b,c,X[i+4],5); c=gg(c,d,a,b,X[i+8],9); b=gg(b,c,d,a,X[i+12],13)
    for i in [0,2,1,3]:
        a=hh(a,b,c,d,X[i],3); d=hh(d,a,b,c,X[i+8],9); c=hh(c,d,a,b,X[i+4],11); b=hh(b,c,d,a,X[i+12],15)
    return A+a,B+b,C+c,D+d
def ref(mut=None):
    # RFC1320 style: F=(x&y)|(~x&z), G=(x&y)|(x&z)|(y&z), H=x^y^z ; generic loop formulation
    F=lambda x,y,z:(x&y)|(~x&z)
    G=lambda x,y,z:(x&y)|(x&z)|(y&z)
    H=lambda x,y,z:x^y^z
    s=[A,B,C,D]
    R1=[3,7,11,19]; R2=[3,5,9,13]; R3=[3,9,11,15]
    if mut: R2=[3,5,9,14]
    K2=[0,4,8,12,1,5,9,13,2,6,10,14,3,7,11,15]
    K3=[0,8,4,12,2,10,6,14,1,9,5,13,3,11,7,15]
    for i in range(16):
        a,b,c,d=s
        t=rol(a+F(b,c,d)+X[i],R1[i%4]); s=[d,t,b,c]
    for i in range(16):
        a,b,c,d=s
        t=rol(a+G(b,c,d)+X[K2[i]]+z3.BitVecVal(0x5A827999,32),R2[i%4]); s=[d,t,b,c]
    for i in range(16):
        a,b,c,d=s
        t=rol(a+H(b,c,d)+X[K3[i]]+z3.BitVecVal(0x6ED9EBA1,32),R3[i%4]); s=[d,t,b,c]
    return A+s[0],B+s[1],C+s[2],D+s[3]
mut = len(sys.argv)>1
i=impl(); r=ref(mut)
s=z3.Solver(); s.set('timeout',120000)
s.add(z3.Or(*[x!=y for x,y in zip(i,r)]))
t=time.time(); print(s.check(), time.time()-t)
open('md4_%s.smt2'%('mut' if mut else 'eq'),'w').write('(set-logic QF_BV)\n'+s.to_smt2())
