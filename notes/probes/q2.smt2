(set-logic QF_BV)
(declare-const t (_ BitVec 64))
; exists ticks >= E (signed) s.t. (t-E)*100 overflows int64 i.e. wide product differs
(define-fun E () (_ BitVec 64) (_ bv116444736000000000 64))
(define-fun d () (_ BitVec 64) (bvsub t E))
(assert (bvsge t E))
(assert (not (= ((_ sign_extend 64) (bvmul d (_ bv100 64))) (bvmul ((_ sign_extend 64) d) (_ bv100 128)))))
(check-sat)
(get-value (t))
