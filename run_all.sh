#!/bin/sh
# runs every claimed check (tier $1, default quick) and prints one summary line per property
tier=${1:-quick}
cd /verif
for p in $(python3 -c "import json;print(' '.join(c['property_id'] for c in json.load(open('MANIFEST.json'))['checks']))"); do
  s=$(date +%s)
  ./check $p --tier $tier > /tmp/run_$p.out 2>&1; rc=$?
  e=$(date +%s)
  echo "$p rc=$rc $((e-s))s $(tail -1 /tmp/run_$p.out | cut -c1-200)"
done
