#!/bin/sh
# runs every claimed check (tier $1, default quick; optional list of property ids after it) and prints one summary line per property
tier=${1:-quick}
[ $# -gt 0 ] && shift
cd /verif
props="$*"
[ -z "$props" ] && props=$(python3 -c "import json;print(' '.join(c['property_id'] for c in json.load(open('MANIFEST.json'))['checks']))")
for p in $props; do
  s=$(date +%s)
  ./check $p --tier $tier > /tmp/run_${tier}_$p.out 2>&1; rc=$?
  e=$(date +%s)
  echo "$p rc=$rc $((e-s))s $(tail -1 /tmp/run_${tier}_$p.out | cut -c1-200)"
done
