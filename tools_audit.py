#!/usr/bin/env python3
"""Coverage audit: for every property, the functions declared in its anchor files that no harness of the property's
last run entered (from evidence/<id>.json block_coverage), and entered functions with unreached blocks."""
import json,re,os,sys
props=[json.loads(l) for l in open('/verif/properties.jsonl')]
only=sys.argv[1:]
for p in props:
    if only and p['id'] not in only: continue
    ev='/verif/evidence/%s.json'%p['id']
    if not os.path.exists(ev): continue
    e=json.load(open(ev))
    per=e['coverage'].get('block_coverage',{}).get('per_function',[])
    hit={}
    for f in per:
        name=f['fn'].split('/')[-1].replace(').','.')
        hit[name]=f
    miss=[]
    for fn in p['anchors']['files']:
        path='/repo/'+fn
        if not os.path.exists(path): continue
        if os.path.isdir(path): continue
        src=open(path).read()
        pkg=re.search(r'^package (\w+)',src,re.M).group(1)
        d=os.path.basename(os.path.dirname(path))
        for m in re.finditer(r'^func (\((\w+) (\*?)(\w+)\) )?(\w+)\(',src,re.M):
            recv,star,ty,name=m.group(2),m.group(3),m.group(4),m.group(5)
            key='%s.%s.%s'%(d,ty,name) if ty else '%s.%s'%(d,name)
            if key not in hit and name not in ('Describe',):
                miss.append(fn.split('/')[-1]+':'+(ty+'.' if ty else '')+name)
    print(p['id'],'never entered:',', '.join(miss) if miss else '-')
