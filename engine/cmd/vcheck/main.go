// vcheck: run the harness groups of one property spec through the symbolic executor,
// replay counterexamples natively, match known findings, write evidence.
package main

import (
	"encoding/json"
	"flag"
	"fmt"
	"os"
	"os/exec"
	"path/filepath"
	"regexp"
	"runtime"
	"sort"
	"strconv"
	"strings"
	"sync"
	"time"

	"verif/engine/sym"
	"verif/engine/symx"
)

type Group struct {
	Pkg            string                         `json:"pkg"`     // path relative to the repo root
	Harness        string                         `json:"harness"` // function name
	Abstract       map[string]string              `json:"abstract"`
	JustifiedBy    []string                       `json:"justified_by"`
	Params         map[string]int                 `json:"params"`
	Grid           map[string]map[string][]string `json:"grid"` // tier -> param -> values ("3", "0..70", "0..200/5")
	TimeoutMs      map[string]int                 `json:"timeout_ms"`
	Unwind         int                            `json:"unwind"`
	MaxPaths       int                            `json:"max_paths"`
	ConcMax        int                            `json:"conc_max"`
	ConcSample     int                            `json:"conc_sample"`
	InstanceSec    map[string]int                 `json:"instance_sec"`
	Covers         []string                       `json:"covers"`
	Tiers          []string                       `json:"tiers"`
	Solver         string                         `json:"solver"`
	AllocFactor    int                            `json:"alloc_factor"`
	AllocBase      int                            `json:"alloc_base"`
	InputLenP      string                         `json:"input_len_param"`
	Bounds         string                         `json:"bounds"`
	NoCosim        bool                           `json:"no_cosim"`
	LossyFmt       bool                           `json:"lossy_fmt"`
	PreemptAtLocks bool                           `json:"preempt_at_locks"`
	FixedClock     bool                           `json:"fixed_clock"`
	LockGuard      *symx.LockGuard                `json:"lock_guard"`
	RaceFn         string                         `json:"race_fn"`
	Summarize      []string                       `json:"summarize"`
	CheckPrefix    []string                       `json:"check_prefix"`
}

type Spec struct {
	Property    string   `json:"property"`
	HarnessDirs []string `json:"harness_dirs"`
	Groups      []Group  `json:"groups"`
	Assumptions []string `json:"assumptions"`
	Outside     []string `json:"outside"`
	Module      string   `json:"module"`
}

type KnownFinding struct {
	Property string `json:"property"`
	Key      string `json:"key"`
	Status   string `json:"status"` // open | fixed
	What     string `json:"what"`
	Commit   string `json:"commit,omitempty"`
	Witness  any    `json:"witness,omitempty"`
	// Params restricts the entry to harness instances whose parameters take one of the listed values.
	Params map[string][]int `json:"params,omitempty"`
}

const module = "github.com/TheManticoreProject/Manticore"

var (
	repo     = "/repo"
	verifDir = "/verif"
	outDir   = "/verif" // evidence/ and replays/ live here; VERIF_OUT redirects them (used when a seeded change is evaluated in a scratch worktree)
)

func init() {
	if v := os.Getenv("VERIF_REPO"); v != "" {
		repo = v
	}
	if v := os.Getenv("VERIF_OUT"); v != "" {
		outDir = v
	}
}

func goEnv() []string {
	var env []string
	for _, kv := range os.Environ() {
		if strings.HasPrefix(kv, "GOFLAGS=") || strings.HasPrefix(kv, "GOSUMDB=") || strings.HasPrefix(kv, "GOTOOLCHAIN=") || strings.HasPrefix(kv, "GOPROXY=") || strings.HasPrefix(kv, "GONOSUMDB=") || strings.HasPrefix(kv, "GONOSUMCHECK=") {
			continue
		}
		env = append(env, kv)
	}
	return append(env, "GOFLAGS=-mod=mod", "GOPROXY=off")
}

func expandValues(specs []string) []int {
	var out []int
	for _, s := range specs {
		step := 1
		if i := strings.Index(s, "/"); i >= 0 {
			step, _ = strconv.Atoi(s[i+1:])
			s = s[:i]
		}
		if i := strings.Index(s, ".."); i >= 0 {
			lo, _ := strconv.Atoi(s[:i])
			hi, _ := strconv.Atoi(s[i+2:])
			for v := lo; v <= hi; v += step {
				out = append(out, v)
			}
			if (hi-lo)%step != 0 {
				out = append(out, hi)
			}
		} else {
			v, _ := strconv.Atoi(s)
			out = append(out, v)
		}
	}
	return out
}

type instance struct {
	g      *Group
	gi     int
	params map[string]int
}

func expand(g *Group, gi int, tier string) []instance {
	base := map[string]int{}
	for k, v := range g.Params {
		base[k] = v
	}
	grid := g.Grid[tier]
	if grid == nil {
		grid = g.Grid["quick"]
	}
	keys := make([]string, 0, len(grid))
	for k := range grid {
		keys = append(keys, k)
	}
	sort.Strings(keys)
	out := []map[string]int{base}
	for _, k := range keys {
		vals := expandValues(grid[k])
		var next []map[string]int
		for _, m := range out {
			for _, v := range vals {
				c := map[string]int{}
				for kk, vv := range m {
					c[kk] = vv
				}
				c[k] = v
				next = append(next, c)
			}
		}
		out = next
	}
	var res []instance
	for _, m := range out {
		res = append(res, instance{g, gi, m})
	}
	return res
}

func paramStr(m map[string]int) string {
	keys := make([]string, 0, len(m))
	for k := range m {
		keys = append(keys, k)
	}
	sort.Strings(keys)
	var sb strings.Builder
	for i, k := range keys {
		if i > 0 {
			sb.WriteByte(',')
		}
		fmt.Fprintf(&sb, "%s=%d", k, m[k])
	}
	return sb.String()
}

type candidate struct {
	v       symx.Violation
	harness string
	pkg     string
	okCase  bool // co-simulation witness: expected result "ok"
	raceFn  string
	prefix  []string
}

func main() {
	specPath := flag.String("spec", "", "property spec json")
	tier := flag.String("tier", "quick", "quick|thorough")
	only := flag.String("only", "", "run only harnesses matching this regexp")
	workers := flag.Int("j", runtime.NumCPU(), "parallel instances")
	replayPath := flag.String("replay", "", "replay a recorded violation natively and exit")
	noReplay := flag.Bool("no-replay", false, "skip native replays (debug)")
	verbose := flag.Bool("v", false, "verbose")
	crossSolver := flag.String("solver", "", "cross-check: decide with this back end instead of z3 5.1 (z3old = z3 4.8.12, cvc5)")
	flag.Parse()
	if v := os.Getenv("VERIF_REPO"); v != "" {
		repo = v
	}
	if v := os.Getenv("VERIF_TIER"); v != "" && *tier == "" {
		*tier = v
	}
	seed := 0
	if v := os.Getenv("VERIF_SEED"); v != "" {
		seed, _ = strconv.Atoi(v)
	}
	if *replayPath != "" {
		os.Exit(replayOne(*replayPath))
	}
	t0 := time.Now()
	var spec Spec
	b, err := os.ReadFile(*specPath)
	if err != nil {
		fmt.Fprintln(os.Stderr, "cannot read spec:", err)
		os.Exit(2)
	}
	if err := json.Unmarshal(b, &spec); err != nil {
		fmt.Fprintln(os.Stderr, "bad spec:", err)
		os.Exit(2)
	}
	prop := spec.Property
	harnessDir := filepath.Join(verifDir, "harness")
	ov, err := symx.HarnessOverlay(repo, harnessDir, filepath.Join(harnessDir, "_shim", "api_sym.go.txt"), spec.HarnessDirs)
	if err != nil {
		fmt.Fprintln(os.Stderr, "overlay:", err)
		os.Exit(2)
	}
	var patterns []string
	for _, d := range spec.HarnessDirs {
		patterns = append(patterns, "./"+d)
	}
	os.Setenv("GOFLAGS", "-mod=mod")
	os.Setenv("GOPROXY", "off")
	os.Unsetenv("GOSUMDB")
	os.Unsetenv("GOTOOLCHAIN")
	ld, err := symx.Load(repo, ov, patterns)
	if err != nil {
		fmt.Printf("INCONCLUSIVE: property=%s cannot load /repo with harness overlay: %v\n", prop, err)
		writeEvidenceFailure(prop, *tier, seed, time.Since(t0), "load failure: "+err.Error())
		os.Exit(2)
	}
	var re *regexp.Regexp
	if *only != "" {
		re = regexp.MustCompile(*only)
	}
	var insts []instance
	for gi := range spec.Groups {
		g := &spec.Groups[gi]
		if re != nil && !re.MatchString(g.Harness) {
			continue
		}
		if len(g.Tiers) > 0 {
			ok := false
			for _, t := range g.Tiers {
				if t == *tier {
					ok = true
				}
			}
			if !ok {
				continue
			}
		}
		insts = append(insts, expand(g, gi, *tier)...)
	}
	// deterministic order permutation by seed
	if seed != 0 {
		r := uint64(seed)*6364136223846793005 + 1442695040888963407
		for i := len(insts) - 1; i > 0; i-- {
			r = r*6364136223846793005 + 1442695040888963407
			j := int((r >> 33) % uint64(i+1))
			insts[i], insts[j] = insts[j], insts[i]
		}
	}
	results := make([]*symx.Result, len(insts))
	var wg sync.WaitGroup
	sem := make(chan struct{}, *workers)
	var mu sync.Mutex
	done := 0
	for i := range insts {
		wg.Add(1)
		sem <- struct{}{}
		go func(i int) {
			defer wg.Done()
			defer func() { <-sem }()
			in := insts[i]
			g := in.g
			cfg := &symx.Config{Params: in.params, Abstract: g.Abstract, Unwind: g.Unwind, MaxPaths: g.MaxPaths, ConcMax: g.ConcMax, ConcSample: g.ConcSample}
			cfg.TimeoutMs = g.TimeoutMs[*tier]
			if cfg.TimeoutMs == 0 {
				if *tier == "thorough" {
					cfg.TimeoutMs = 60000
				} else {
					cfg.TimeoutMs = 10000
				}
			}
			sec := g.InstanceSec[*tier]
			if sec == 0 {
				if *tier == "thorough" {
					sec = 900
				} else {
					sec = 240
				}
			}
			cfg.Deadline = time.Now().Add(time.Duration(sec) * time.Second)
			cfg.AllocFactor, cfg.AllocBase = g.AllocFactor, g.AllocBase
			cfg.LossyFmt = g.LossyFmt
			cfg.PreemptAtLocks = g.PreemptAtLocks
			cfg.FixedClock = g.FixedClock
			cfg.LockGuard = g.LockGuard
			cfg.CheckPrefix = g.CheckPrefix
			cfg.Summarize = map[string]bool{}
			for _, f := range g.Summarize {
				cfg.Summarize[f] = true
			}
			if g.InputLenP != "" {
				cfg.InputLen = in.params[g.InputLenP]
			}
			kind := sym.Z3New
			solverName := g.Solver
			if *crossSolver != "" && solverName != "cvc5int" {
				solverName = *crossSolver // cross-check run: every group that does not need the integer encoding uses this back end
			}
			switch solverName {
			case "z3old":
				kind = sym.Z3Old
			case "cvc5":
				kind = sym.CVC5
			case "cvc5int":
				kind = sym.CVC5Int
			}
			results[i] = symx.RunHarness(ld, module+"/"+g.Pkg, g.Harness, cfg, kind)
			mu.Lock()
			done++
			if *verbose {
				r := results[i]
				fmt.Fprintf(os.Stderr, "[%d/%d] %s {%s}: paths=%d obls=%d err=%q %.1fs\n", done, len(insts), g.Harness, paramStr(in.params), r.Rep.Paths, len(r.Rep.Obls), r.Err, r.Wall.Seconds())
			}
			mu.Unlock()
		}(i)
	}
	wg.Wait()

	// ---------------------------------------------------------------- aggregate
	type oblAgg struct {
		Key                               string
		Proved, Folded, Violated, Unknown int
		MaxSize                           int
		Instances                         int
	}
	obls := map[string]*oblAgg{}
	var cands []candidate
	var incon []string
	for f, why := range symx.Dropped {
		incon = append(incon, fmt.Sprintf("harness file %s does not compile against this tree and was left out: %s", filepath.Base(f), why))
	}
	funcs := map[string]int64{}
	stubs := map[string]int{}
	var stats sym.Stats
	var states, transitions int64
	pathKinds := map[string]int{}
	groupClean := map[string]bool{}
	groupSeen := map[string]bool{}
	groupViolated := map[string]bool{}
	blockCov := map[string]*symx.BlockCov{}
	coversHit := map[string]map[string]bool{}
	var okCases []candidate
	ifconv := 0
	unwindHits := 0
	for i, r := range results {
		in := insts[i]
		h := in.g.Harness
		if !groupSeen[h] {
			groupSeen[h] = true
			groupClean[h] = true
			coversHit[h] = map[string]bool{}
		}
		if r.Err != "" {
			incon = append(incon, fmt.Sprintf("%s{%s}: engine: %s", h, paramStr(in.params), firstLine(r.Err)))
			groupClean[h] = false
		}
		rep := r.Rep
		states += int64(rep.Paths)
		transitions += rep.Steps
		stats.Add(rep.Solver)
		ifconv += rep.IfConverted
		unwindHits += rep.UnwindHits
		for k, v := range rep.PathKinds {
			pathKinds[k] += v
		}
		for k, v := range rep.Funcs {
			funcs[k] += v
		}
		for k, bc := range rep.Blocks {
			if bc.Total < 0 {
				continue
			}
			u := blockCov[k]
			if u == nil {
				u = &symx.BlockCov{Total: bc.Total, Hit: map[int]bool{}, Line: bc.Line}
				blockCov[k] = u
			}
			for i := range bc.Hit {
				u.Hit[i] = true
			}
		}
		for k, v := range rep.Stubs {
			stubs[k] += v
		}
		for c := range rep.Covers {
			coversHit[h][c] = true
		}
		for _, ic := range rep.Incon {
			incon = append(incon, fmt.Sprintf("%s{%s}: %s: %s (x%d)", h, paramStr(in.params), ic.Key, ic.Msg, ic.N))
			groupClean[h] = false
		}
		if rep.PathsDone == 0 && r.Err == "" {
			// vacuity: no path reached the end of the harness
			hasViol := false
			for _, o := range rep.Obls {
				if o.Violated > 0 {
					hasViol = true
				}
			}
			if !hasViol {
				incon = append(incon, fmt.Sprintf("%s{%s}: VACUOUS: no path reaches the end of the harness (%v)", h, paramStr(in.params), rep.PathKinds))
				groupClean[h] = false
			}
		}
		for _, o := range rep.Obls {
			key := h + "/" + o.Key
			a := obls[key]
			if a == nil {
				a = &oblAgg{Key: key}
				obls[key] = a
			}
			a.Proved += o.Proved
			a.Folded += o.Folded
			a.Violated += o.Violated
			a.Unknown += o.Unknown
			a.Instances++
			if o.MaxSize > a.MaxSize {
				a.MaxSize = o.MaxSize
			}
			if o.Violated > 0 {
				groupClean[h] = false
				groupViolated[h] = true
			}
			for _, v := range o.Violations {
				vv := v
				vv.Key = key
				cands = append(cands, candidate{v: vv, harness: h, pkg: in.g.Pkg, raceFn: in.g.RaceFn, prefix: in.g.CheckPrefix})
			}
		}
		if rep.Witness != nil && !in.g.NoCosim {
			okCases = append(okCases, candidate{v: symx.Violation{Key: h + "/witness", Inputs: rep.Witness, Params: in.params}, harness: h, pkg: in.g.Pkg, okCase: true, prefix: in.g.CheckPrefix})
		}
	}
	// covers declared in the spec must be hit by some instance
	for gi := range spec.Groups {
		g := &spec.Groups[gi]
		if !groupSeen[g.Harness] {
			continue
		}
		for _, c := range append([]string{"end"}, g.Covers...) {
			if !coversHit[g.Harness][c] && !groupViolated[g.Harness] {
				incon = append(incon, fmt.Sprintf("%s: VACUOUS: cover point %q never reached", g.Harness, c))
				groupClean[g.Harness] = false
			}
		}
	}
	// abstractions are only valid when their lemma groups are clean
	for gi := range spec.Groups {
		g := &spec.Groups[gi]
		for _, j := range g.JustifiedBy {
			if groupSeen[g.Harness] && groupSeen[j] && !groupClean[j] {
				incon = append(incon, fmt.Sprintf("%s: abstraction not justified in this run: lemma group %s is not clean", g.Harness, j))
			}
		}
	}

	// ---------------------------------------------------------------- native replay
	known := loadKnown(prop)
	// one candidate per obligation key is replayed (first); all are written out
	sort.Slice(cands, func(i, j int) bool { return cands[i].v.Key < cands[j].v.Key })
	byKey := map[string][]candidate{}
	var keyOrder []string
	for _, c := range cands {
		if _, ok := byKey[c.v.Key]; !ok {
			keyOrder = append(keyOrder, c.v.Key)
		}
		byKey[c.v.Key] = append(byKey[c.v.Key], c)
	}
	replayDir := filepath.Join(outDir, "replays", prop)
	os.MkdirAll(replayDir, 0o755)
	// clear stale replays of this property
	if ents, err := os.ReadDir(replayDir); err == nil && re == nil {
		for _, en := range ents {
			os.Remove(filepath.Join(replayDir, en.Name()))
		}
	}
	confirmed := map[string]*candidate{}
	unconfirmed := map[string]string{}
	maskedBy := map[string]string{}
	replays := 0
	cosimOK, cosimBad := 0, 0
	if !*noReplay {
		// batch per package: up to 3 candidates per key + co-simulation witnesses
		perPkg := map[string][]candidate{}
		for _, k := range keyOrder {
			cnt := map[bool]int{}
			for _, c := range byKey[k] {
				isKnown := matchKnown(known, k, c.v.Params) != nil
				if cnt[isKnown] >= 3 {
					continue
				}
				cnt[isKnown]++
				perPkg[c.pkg] = append(perPkg[c.pkg], c)
			}
		}
		// sample witnesses: at most 40 per package
		wcount := map[string]int{}
		for _, c := range okCases {
			if wcount[c.pkg] < 40 {
				wcount[c.pkg]++
				perPkg[c.pkg] = append(perPkg[c.pkg], c)
			}
		}
		var pkgs []string
		for p := range perPkg {
			pkgs = append(pkgs, p)
		}
		sort.Strings(pkgs)
		for _, p := range pkgs {
			cs := perPkg[p]
			outs, err := nativeReplay(p, spec.HarnessDirs, cs)
			if err != nil {
				incon = append(incon, fmt.Sprintf("native replay in %s failed: %v", p, firstLine(err.Error())))
				continue
			}
			for i, c := range cs {
				replays++
				res := outs[i]
				if c.okCase {
					if res.result == "ok" {
						cosimOK++
					} else {
						cosimBad++
						if strings.HasPrefix(res.result, "check-failed ") {
							// the real code fails a harness assertion on this concrete input: that is a violation in its own
							// right, whatever the symbolic run concluded about the path (typically a check that was violated
							// earlier on the path under an abstraction and then assumed)
							k := c.harness + "/check/" + strings.TrimPrefix(strings.Fields(res.result)[1], "")
							ck := k
							if matchKnown(known, k, c.v.Params) != nil {
								ck = k + "\x00known"
							}
							if confirmed[ck] == nil {
								cc := c
								cc.okCase = false
								cc.v.Key, cc.v.Kind = k, "check"
								cc.v.Msg = "native run of a witness path fails this assertion | native: " + res.result
								confirmed[ck] = &cc
								delete(unconfirmed, k)
							}
						} else {
							incon = append(incon, fmt.Sprintf("CO-SIMULATION MISMATCH %s{%s}: engine path completes with all checks passing, native run says %q (inputs %v)", c.harness, paramStr(c.v.Params), res.result, c.v.Inputs))
						}
					}
					continue
				}
				ck := c.v.Key
				if matchKnown(known, c.v.Key, c.v.Params) != nil {
					ck = c.v.Key + "\x00known"
				}
				if confirmed[ck] != nil {
					continue
				}
				if reproduces(c.v, res) {
					cc := c
					cc.v.Msg = c.v.Msg + " | native: " + res.result
					confirmed[ck] = &cc
					delete(unconfirmed, c.v.Key)
				} else {
					unconfirmed[c.v.Key] = res.result
					if strings.HasPrefix(res.result, "check-failed ") {
						maskedBy[c.v.Key] = c.harness + "/check/" + strings.TrimPrefix(res.result, "check-failed ")
					}
				}
			}
		}
	} else {
		for _, k := range keyOrder {
			c := byKey[k][0]
			ck := k
			if matchKnown(known, k, c.v.Params) != nil {
				ck = k + "\x00known"
			}
			confirmed[ck] = &c
		}
	}
	// lock-discipline violations are confirmed natively by the race detector on a concurrent driver
	if !*noReplay {
		raceRes := map[string]string{}
		for _, k := range keyOrder {
			c := byKey[k][0]
			if c.v.Kind != "lock" || confirmed[k] != nil {
				continue
			}
			if c.raceFn == "" {
				continue
			}
			rk := c.pkg + "/" + c.raceFn
			if _, done := raceRes[rk]; !done {
				raceRes[rk] = nativeRace(c.pkg, spec.HarnessDirs, c.raceFn)
				replays++
			}
			if strings.Contains(raceRes[rk], "DATA RACE") {
				cc := c
				cc.v.Msg += " | native: go test -race reports a DATA RACE in " + c.raceFn
				confirmed[k] = &cc
				delete(unconfirmed, k)
			} else {
				unconfirmed[k] = "race detector silent: " + firstLine(raceRes[rk])
			}
		}
	}
	var masked []string
	for k, r := range unconfirmed {
		if mb, ok := maskedBy[k]; ok && (confirmed[mb] != nil || confirmed[mb+"\x00known"] != nil) {
			masked = append(masked, fmt.Sprintf("%s (candidate masked natively by the confirmed failure of %s)", k, mb))
			continue
		}
		if confirmed[k] == nil && confirmed[k+"\x00known"] == nil {
			incon = append(incon, fmt.Sprintf("UNCONFIRMED counterexample for %s: native replay gave %q (encoding or stub fault; not reported as violation)", k, r))
		}
	}

	// ---------------------------------------------------------------- verdicts
	var violLines, knownLines []string
	nViol := 0
	var ckeys []string
	for k := range confirmed {
		ckeys = append(ckeys, k)
	}
	sort.Strings(ckeys)
	for _, ck := range ckeys {
		c := confirmed[ck]
		k := c.v.Key
		path := filepath.Join(replayDir, sanitize(ck)+".json")
		rec := map[string]any{"property": prop, "obligation": k, "package": module + "/" + c.pkg, "pkg_rel": c.pkg, "harness": c.harness,
			"harness_dirs": spec.HarnessDirs, "params": c.v.Params, "inputs": c.v.Inputs, "kind": c.v.Kind, "race_fn": c.raceFn, "check_prefix": c.prefix, "observed": c.v.Msg, "where": c.v.Where, "replayed": !*noReplay}
		jb, _ := json.MarshalIndent(rec, "", " ")
		os.WriteFile(path, jb, 0o644)
		if kf := matchKnown(known, k, c.v.Params); kf != nil {
			knownLines = append(knownLines, fmt.Sprintf("KNOWN-FINDING: property=%s %s — %s", prop, k, kf.What))
			continue
		}
		nViol++
		violLines = append(violLines, fmt.Sprintf("VIOLATION property=%s replay=%s", prop, path))
		fmt.Printf("  violated: %s — %s at %s inputs=%v params=%v\n", k, c.v.Msg, c.v.Where, c.v.Inputs, c.v.Params)
	}
	for _, l := range knownLines {
		fmt.Println(l)
	}
	sort.Strings(incon)
	for _, l := range dedup(incon) {
		fmt.Printf("INCONCLUSIVE: property=%s %s\n", prop, l)
	}
	for _, l := range violLines {
		fmt.Println(l)
	}

	// ---------------------------------------------------------------- evidence
	var oblList []*oblAgg
	for _, o := range obls {
		oblList = append(oblList, o)
	}
	sort.Slice(oblList, func(i, j int) bool { return oblList[i].Key < oblList[j].Key })
	nontrivial := 0
	evals := 0
	var samples []any
	for _, o := range oblList {
		evals += o.Proved + o.Folded + o.Violated + o.Unknown
		if o.Proved+o.Violated+o.Unknown > 0 {
			nontrivial++
		}
		status := "proved"
		if o.Violated > 0 {
			status = "violated"
			if confirmed[o.Key] != nil {
				status = "violated"
			} else if confirmed[o.Key+"\x00known"] != nil {
				status = "known-finding"
			} else {
				status = "violated-unconfirmed"
			}
		} else if o.Unknown > 0 {
			status = "unknown"
		}
		if len(samples) < 60 || status != "proved" {
			samples = append(samples, map[string]any{"obligation": o.Key, "status": status, "solver_unsat": o.Proved, "closed_by_folding": o.Folded, "sat": o.Violated, "unknown": o.Unknown, "max_term_size": o.MaxSize, "instances": o.Instances})
		}
	}
	type fc struct {
		Name  string `json:"fn"`
		Calls int64  `json:"calls"`
	}
	var fl []fc
	for k, v := range funcs {
		fl = append(fl, fc{k, v})
	}
	sort.Slice(fl, func(i, j int) bool { return fl[i].Name < fl[j].Name })
	var stubList []string
	for k, v := range stubs {
		stubList = append(stubList, fmt.Sprintf("%s (x%d)", k, v))
	}
	sort.Strings(stubList)
	var bounds []string
	for gi := range spec.Groups {
		g := &spec.Groups[gi]
		if !groupSeen[g.Harness] {
			continue
		}
		grid := g.Grid[*tier]
		if grid == nil {
			grid = g.Grid["quick"]
		}
		gb, _ := json.Marshal(grid)
		bounds = append(bounds, fmt.Sprintf("%s: grid=%s params=%v %s", g.Harness, gb, g.Params, g.Bounds))
	}
	// basic-block coverage of the module's functions over all paths of all instances: blocks never executed are
	// code the grid does not reach (panic-only blocks such as bounds-check failures are not separate SSA blocks)
	type bcOut struct {
		Fn     string `json:"fn"`
		Hit    int    `json:"blocks_hit"`
		Total  int    `json:"blocks"`
		Missed []int  `json:"lines_of_unreached_blocks,omitempty"`
	}
	var bcs []bcOut
	hitAll, totAll := 0, 0
	for k, u := range blockCov {
		o := bcOut{Fn: k, Hit: len(u.Hit), Total: u.Total}
		for i := 0; i < u.Total; i++ {
			if !u.Hit[i] && u.Line[i] > 0 {
				o.Missed = append(o.Missed, u.Line[i])
			}
		}
		sort.Ints(o.Missed)
		hitAll += o.Hit
		totAll += o.Total
		bcs = append(bcs, o)
	}
	sort.Slice(bcs, func(i, j int) bool { return bcs[i].Fn < bcs[j].Fn })
	if *verbose || os.Getenv("VERIF_COVERAGE") != "" {
		for _, o := range bcs {
			if o.Hit < o.Total {
				fmt.Printf("COVERAGE %s %d/%d unreached at lines %v\n", o.Fn, o.Hit, o.Total, o.Missed)
			}
		}
	}
	cov := map[string]any{
		"block_coverage":                map[string]any{"blocks_hit": hitAll, "blocks": totAll, "per_function": bcs},
		"states":                        states,
		"transitions":                   transitions,
		"traces_validated_against_impl": replays,
		"samples":                       samples,
		"evaluations":                   evals,
		"distinct_nontrivial":           nontrivial,
		"rule":                          "one evaluation = one obligation (harness assertion or implicit Go run-time check) on one symbolic path of one harness instance; non-trivial = distinct obligation key that needed at least one solver call (not closed by term folding)",
		"obligation_keys":               len(oblList),
		"harness_instances":             len(insts),
		"path_outcomes":                 pathKinds,
		"functions_encoded":             fl,
		"bounds":                        bounds,
		"outside_claim":                 spec.Outside,
		"queries":                       map[string]any{"sat": stats.Sat, "unsat": stats.Unsat, "unknown": stats.Unknown, "error": stats.Errors, "solver_restarts": stats.Restarts},
		"solver_time_s":                 stats.Time.Seconds(),
		"max_query_s":                   stats.MaxQuery.Seconds(),
		"solver":                        solverLabel(*crossSolver),
		"stubs_and_models":              stubList,
		"if_converted_regions":          ifconv,
		"unwind_hits":                   unwindHits,
		"inconclusive":                  dedup(incon),
		"known_findings":                knownLines,
		"masked_candidates":             masked,
		"cosimulation":                  map[string]int{"witness_paths_replayed_ok": cosimOK, "mismatch": cosimBad},
		"package_load_s":                ld.LoadDur.Seconds(),
		"exhaustive":                    false,
	}
	ev := map[string]any{
		"property_id": prop, "tier": *tier, "seed": seed, "level": "model_checking",
		"coverage": cov, "assumptions": spec.Assumptions, "wall_s": time.Since(t0).Seconds(), "violations": nViol,
	}
	eb, _ := json.MarshalIndent(ev, "", " ")
	os.MkdirAll(filepath.Join(outDir, "evidence"), 0o755)
	if re == nil {
		os.WriteFile(filepath.Join(outDir, "evidence", prop+".json"), eb, 0o644)
	} else {
		os.WriteFile(filepath.Join(outDir, "evidence", "_partial_"+prop+".json"), eb, 0o644)
	}
	fmt.Printf("property=%s tier=%s instances=%d paths=%d obligations=%d (solver-decided %d) queries sat/unsat/unknown=%d/%d/%d solver=%.1fs wall=%.1fs violations=%d known=%d inconclusive=%d\n",
		prop, *tier, len(insts), states, len(oblList), nontrivial, stats.Sat, stats.Unsat, stats.Unknown, stats.Time.Seconds(), time.Since(t0).Seconds(), nViol, len(knownLines), len(dedup(incon)))
	if nViol > 0 {
		os.Exit(1)
	}
	if states == 0 && len(insts) > 0 {
		// nothing was explored at all (every harness was left out or failed to start): that is not a pass
		fmt.Printf("INCONCLUSIVE: property=%s no harness instance could be explored\n", prop)
		os.Exit(2)
	}
}

func firstLine(s string) string {
	if i := strings.IndexByte(s, '\n'); i >= 0 {
		return s[:i]
	}
	return s
}

func dedup(xs []string) []string {
	seen := map[string]bool{}
	var out []string
	for _, x := range xs {
		if !seen[x] {
			seen[x] = true
			out = append(out, x)
		}
	}
	return out
}

func sanitize(k string) string {
	var sb strings.Builder
	for _, r := range k {
		if (r >= 'a' && r <= 'z') || (r >= 'A' && r <= 'Z') || (r >= '0' && r <= '9') || r == '-' || r == '_' || r == '.' {
			sb.WriteRune(r)
		} else {
			sb.WriteByte('_')
		}
	}
	s := sb.String()
	if len(s) > 150 {
		h := 0
		for _, c := range s {
			h = h*31 + int(c)
			h &= 0xffffff
		}
		s = fmt.Sprintf("%s_%06x", s[:140], h)
	}
	return s
}

func loadKnown(prop string) []KnownFinding {
	var kf struct {
		Findings []KnownFinding `json:"findings"`
	}
	b, err := os.ReadFile(filepath.Join(verifDir, "known_findings.json"))
	if err != nil {
		return nil
	}
	if err := json.Unmarshal(b, &kf); err != nil {
		fmt.Fprintln(os.Stderr, "known_findings.json unreadable:", err)
		return nil
	}
	var out []KnownFinding
	for _, f := range kf.Findings {
		if f.Property == prop && f.Status == "open" {
			out = append(out, f)
		}
	}
	return out
}

func matchKnown(known []KnownFinding, key string, params map[string]int) *KnownFinding {
	for i := range known {
		if known[i].Key != key {
			continue
		}
		ok := true
		for p, vals := range known[i].Params {
			v, has := params[p]
			in := false
			for _, x := range vals {
				if has && x == v {
					in = true
				}
			}
			if !in {
				ok = false
			}
		}
		if ok {
			return &known[i]
		}
	}
	return nil
}

func writeEvidenceFailure(prop, tier string, seed int, wall time.Duration, msg string) {
	ev := map[string]any{"property_id": prop, "tier": tier, "seed": seed, "level": "model_checking",
		"coverage": map[string]any{"evaluations": 0, "distinct_nontrivial": 0, "explanation": msg}, "wall_s": wall.Seconds(), "violations": 0}
	eb, _ := json.MarshalIndent(ev, "", " ")
	os.MkdirAll(filepath.Join(outDir, "evidence"), 0o755)
	os.WriteFile(filepath.Join(outDir, "evidence", prop+".json"), eb, 0o644)
}

// ------------------------------------------------------------------ native replay

type replayOut struct {
	result string
	alloc  int64
}

var harnessFuncRe = regexp.MustCompile(`(?m)^func ((?:H|R)_\w+)\(\)`)

func nativeReplay(pkgRel string, harnessDirs []string, cs []candidate) ([]replayOut, error) {
	tmp, err := os.MkdirTemp("", "verif-replay-")
	if err != nil {
		return nil, err
	}
	defer os.RemoveAll(tmp)
	harnessDir := filepath.Join(verifDir, "harness")
	replace := map[string]string{}
	for _, rel := range harnessDirs {
		dir := filepath.Join(harnessDir, rel)
		ents, err := os.ReadDir(dir)
		if err != nil {
			return nil, err
		}
		pkgName := ""
		var names []string
		for _, en := range ents {
			if !strings.HasSuffix(en.Name(), ".go") {
				continue
			}
			src := filepath.Join(dir, en.Name())
			b, _ := os.ReadFile(src)
			if _, gone := symx.Dropped[filepath.Join(repo, rel, "zz_verif_"+en.Name())]; gone && pkgName != "" {
				continue // does not compile against this tree: left out of the native build as well
			}
			if pkgName == "" {
				for _, l := range strings.Split(string(b), "\n") {
					if strings.HasPrefix(l, "package ") {
						pkgName = strings.TrimSpace(strings.TrimPrefix(l, "package "))
						break
					}
				}
			}
			if _, gone := symx.Dropped[filepath.Join(repo, rel, "zz_verif_"+en.Name())]; gone {
				continue
			}
			for _, m := range harnessFuncRe.FindAllStringSubmatch(string(b), -1) {
				names = append(names, m[1])
			}
			replace[filepath.Join(repo, rel, "zz_verif_"+en.Name())] = src
		}
		tag := strings.ReplaceAll(rel, "/", "_")
		shim, _ := os.ReadFile(filepath.Join(harnessDir, "_shim", "api_replay.go.txt"))
		sp := filepath.Join(tmp, tag+"_api.go")
		os.WriteFile(sp, []byte(strings.Replace(string(shim), "package PKG", "package "+pkgName, 1)), 0o644)
		replace[filepath.Join(repo, rel, "zz_verif_api.go")] = sp
		if rel == pkgRel {
			tst, _ := os.ReadFile(filepath.Join(harnessDir, "_shim", "replay_test.go.txt"))
			var sb strings.Builder
			sb.WriteString(strings.Replace(string(tst), "package PKG", "package "+pkgName, 1))
			sb.WriteString("\nvar verifHarnesses = map[string]func(){\n")
			for _, n := range names {
				fmt.Fprintf(&sb, "\t%q: %s,\n", n, n)
			}
			sb.WriteString("}\n")
			tp := filepath.Join(tmp, tag+"_replay_test.go")
			os.WriteFile(tp, []byte(sb.String()), 0o644)
			replace[filepath.Join(repo, rel, "zz_verif_replay_test.go")] = tp
		}
	}
	ovb, _ := json.Marshal(map[string]any{"Replace": replace})
	ovPath := filepath.Join(tmp, "overlay.json")
	os.WriteFile(ovPath, ovb, 0o644)
	type vCase struct {
		Harness string            `json:"harness"`
		Inputs  map[string]string `json:"inputs"`
		Params  map[string]int    `json:"params"`
		Prefix  []string          `json:"prefix"`
	}
	outs := make([]replayOut, len(cs))
	for i := range outs {
		outs[i].result = "not-run"
	}
	start := 0
	for start < len(cs) {
		var cases []vCase
		for _, c := range cs[start:] {
			cases = append(cases, vCase{c.harness, c.v.Inputs, c.v.Params, c.prefix})
		}
		cb, _ := json.Marshal(cases)
		cp := filepath.Join(tmp, "cases.json")
		os.WriteFile(cp, cb, 0o644)
		args := []string{"test", "-v", "-vet=off", "-count=1", "-run", "^TestVerifReplay$", "-timeout", "600s", "-overlay", ovPath}
		if raceMode {
			args = append(args, "-race")
		}
		args = append(args, "./"+pkgRel)
		cmd := exec.Command("go", args...)
		cmd.Dir = repo
		cmd.Env = append(goEnv(), "VERIF_REPLAY="+cp)
		out, _ := cmd.CombinedOutput()
		n := 0
		last := -1
		for _, l := range strings.Split(string(out), "\n") {
			if !strings.HasPrefix(l, "VERIF-RESULT ") {
				continue
			}
			f := strings.SplitN(l, " ", 4)
			if len(f) < 4 {
				continue
			}
			idx, _ := strconv.Atoi(f[1])
			al, _ := strconv.ParseInt(strings.TrimPrefix(f[2], "alloc="), 10, 64)
			outs[start+idx] = replayOut{f[3], al}
			last = idx
			n++
		}
		if raceMode {
			res := "no race reported"
			if strings.Contains(string(out), "DATA RACE") {
				res = "DATA RACE"
			}
			return []replayOut{{res, 0}}, nil
		}
		if n == 0 {
			// the first case of this batch took the whole test process down (runtime fatal error such as a stack
			// overflow, os.Exit, log.Fatal) before any result line: that is this case's native result
			so := string(out)
			if strings.Contains(so, "[build failed]") || strings.Contains(so, "[setup failed]") || !(strings.Contains(so, "fatal error:") || strings.Contains(so, "exit status") || strings.Contains(so, "signal:") || strings.Contains(so, "\npanic: ")) {
				return nil, fmt.Errorf("no replay output: %s", tail(so, 1500))
			}
			why := "exit"
			for _, l := range strings.Split(so, "\n") {
				if strings.HasPrefix(l, "fatal error:") || strings.HasPrefix(l, "runtime: goroutine stack exceeds") || strings.HasPrefix(l, "panic: ") {
					why = l
					break
				}
			}
			outs[start] = replayOut{"process-died " + why, 0}
			start++
			if start >= len(cs) {
				break
			}
			continue
		}
		// a fatal exit (log.Fatal / os.Exit / runtime fatal) in case k loses later cases: mark k and resume after it
		if last+1 < len(cases) && outs[start+last+1].result == "not-run" {
			outs[start+last+1] = replayOut{"process-died " + firstLine(tail(string(out), 300)), 0}
			start = start + last + 2
			continue
		}
		// timeouts mark the remainder skipped: resume after the timed-out case
		resumed := false
		for i := start; i < len(cs); i++ {
			if outs[i].result == "skipped" {
				start = i
				resumed = true
				break
			}
		}
		if !resumed {
			break
		}
	}
	return outs, nil
}

func tail(s string, n int) string {
	if len(s) > n {
		return s[len(s)-n:]
	}
	return s
}

// nativeRace runs the named concurrent driver of the harness package under the race detector.
func nativeRace(pkgRel string, harnessDirs []string, fn string) string {
	c := candidate{v: symx.Violation{Key: "race", Kind: "race"}, harness: fn, pkg: pkgRel}
	prev := raceMode
	raceMode = true
	defer func() { raceMode = prev }()
	outs, err := nativeReplay(pkgRel, harnessDirs, []candidate{c})
	if err != nil {
		return err.Error()
	}
	return outs[0].result
}

var raceMode bool

func reproduces(v symx.Violation, r replayOut) bool {
	switch v.Kind {
	case "check":
		// key = harness/check/<id>
		i := strings.Index(v.Key, "/check/")
		id := v.Key[i+len("/check/"):]
		return r.result == "check-failed "+id
	case "panic":
		return strings.HasPrefix(r.result, "panic ") || strings.HasPrefix(r.result, "process-died")
	case "unwind":
		return r.result == "timeout" || strings.HasPrefix(r.result, "panic ") || strings.HasPrefix(r.result, "process-died fatal error: stack overflow") || strings.HasPrefix(r.result, "process-died runtime: goroutine stack exceeds")
	case "alloc":
		return v.Bytes > 0 && r.alloc >= int64(v.Bytes)
	}
	return false
}

func replayOne(path string) int {
	b, err := os.ReadFile(path)
	if err != nil {
		fmt.Fprintln(os.Stderr, err)
		return 2
	}
	var rec struct {
		Property    string            `json:"property"`
		Obligation  string            `json:"obligation"`
		PkgRel      string            `json:"pkg_rel"`
		Harness     string            `json:"harness"`
		HarnessDirs []string          `json:"harness_dirs"`
		Params      map[string]int    `json:"params"`
		Inputs      map[string]string `json:"inputs"`
		Kind        string            `json:"kind"`
		RaceFn      string            `json:"race_fn"`
		Prefix      []string          `json:"check_prefix"`
	}
	if err := json.Unmarshal(b, &rec); err != nil {
		fmt.Fprintln(os.Stderr, err)
		return 2
	}
	if rec.Kind == "lock" {
		res := nativeRace(rec.PkgRel, rec.HarnessDirs, rec.RaceFn)
		fmt.Printf("native result: %s\n", res)
		if strings.Contains(res, "DATA RACE") {
			fmt.Printf("VIOLATION property=%s replay=%s\n", rec.Property, path)
			return 1
		}
		fmt.Println("does not reproduce on the current tree")
		return 0
	}
	c := candidate{v: symx.Violation{Key: rec.Obligation, Kind: rec.Kind, Inputs: rec.Inputs, Params: rec.Params}, harness: rec.Harness, pkg: rec.PkgRel, prefix: rec.Prefix}
	outs, err := nativeReplay(rec.PkgRel, rec.HarnessDirs, []candidate{c})
	if err != nil {
		fmt.Fprintln(os.Stderr, "replay failed:", err)
		return 2
	}
	fmt.Printf("native result: %s (alloc %d)\n", outs[0].result, outs[0].alloc)
	if reproduces(c.v, outs[0]) {
		fmt.Printf("VIOLATION property=%s replay=%s\n", rec.Property, path)
		return 1
	}
	fmt.Println("does not reproduce on the current tree")
	return 0
}

func solverLabel(cross string) string {
	switch cross {
	case "z3old":
		return "CROSS-CHECK RUN with z3 4.8.12 (z3 -in), one process per harness instance"
	case "cvc5":
		return "CROSS-CHECK RUN with cvc5 1.0.x (--incremental), one process per harness instance"
	}
	return "z3 5.1.0 (z3-new -in), one process per harness instance; groups marked cvc5int use cvc5 --solve-bv-as-int=sum"
}
