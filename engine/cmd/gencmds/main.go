// gencmds: enumerates the SMB1 command structures reachable from the request/response factories of /repo
// (go/packages + go/types on the current source) and emits one harness per structure for C03/C04/C05.
package main

import (
	"fmt"
	"go/ast"
	"go/types"
	"os"
	"regexp"
	"sort"
	"strconv"
	"strings"

	"golang.org/x/tools/go/packages"
)

const cmdPkg = "github.com/TheManticoreProject/Manticore/network/smb/smb_v10/message/commands"

type field struct {
	Name    string
	Kind    string  // int, quad, bytes, words, intarray, marshaler, skip
	Width   int     // bytes (int / array element)
	N       int     // array length
	Type    string  // printable type
	MType   string  // marshaler short type name
	LenOf   string  // this integer field holds the length of buffer field LenOf
	CountOf string  // this integer field holds the number of elements of list field CountOf
	Elem    []field // structlist: the integer fields of the element structure
	ElemT   string
	StrFmt  string // SMB_STRING field: the buffer format constant Marshal sets for it ("" = none)
	LenBy   string // byte buffer: the integer field that holds its length (read from Unmarshal)
	Rest    bool   // byte buffer that the decoder takes as "everything that is left" of its block
	FixLen  int    // byte buffer whose length the decoder fixes (pad conventions); -1 = free
	Opt     bool   // emitted only when non-zero (read from Marshal)
	Cond    bool   // emitted under some other run-time condition (first use in Marshal is inside a nested block)
}

type cmd struct {
	Name   string
	Fields []field
	AndX   bool
	Skip   string
}

func intWidth(t types.Type) int {
	b, ok := t.Underlying().(*types.Basic)
	if !ok {
		return 0
	}
	switch b.Kind() {
	case types.Uint8, types.Int8:
		return 1
	case types.Uint16, types.Int16:
		return 2
	case types.Uint32, types.Int32:
		return 4
	case types.Uint64, types.Int64:
		return 8
	}
	return 0
}

func qual(p *types.Package) string {
	if p.Path() == cmdPkg {
		return ""
	}
	return p.Name()
}

func main() {
	out := os.Args[1]
	cfg := &packages.Config{Mode: packages.LoadAllSyntax, Dir: "/repo", Env: append(os.Environ(), "GOFLAGS=-mod=mod", "GOPROXY=off")}
	pkgs, err := packages.Load(cfg, cmdPkg)
	if err != nil || len(pkgs) != 1 || len(pkgs[0].Errors) > 0 {
		fmt.Fprintln(os.Stderr, "load failed", err)
		os.Exit(1)
	}
	pkg := pkgs[0]
	// constructors named in the factories
	ctorSet := map[string]bool{}
	unmarshalSrc := map[string]string{}
	marshalSrc := map[string]string{}
	for _, f := range pkg.Syntax {
		for _, d := range f.Decls {
			fd, ok := d.(*ast.FuncDecl)
			if !ok {
				continue
			}
			if fd.Recv == nil && (fd.Name.Name == "CreateRequestCommand" || fd.Name.Name == "CreateResponseCommand") {
				ast.Inspect(fd, func(n ast.Node) bool {
					if c, ok := n.(*ast.CallExpr); ok {
						if id, ok := c.Fun.(*ast.Ident); ok && strings.HasPrefix(id.Name, "New") {
							ctorSet[id.Name] = true
						}
					}
					return true
				})
			}
			if fd.Recv != nil && (fd.Name.Name == "Unmarshal" || fd.Name.Name == "Marshal") && len(fd.Recv.List) == 1 {
				if st, ok := fd.Recv.List[0].Type.(*ast.StarExpr); ok {
					if id, ok := st.X.(*ast.Ident); ok {
						start, end := pkg.Fset.Position(fd.Pos()).Offset, pkg.Fset.Position(fd.End()).Offset
						src, _ := os.ReadFile(pkg.Fset.Position(fd.Pos()).Filename)
						if fd.Name.Name == "Unmarshal" {
							unmarshalSrc[id.Name] = string(src[start:end])
						} else {
							marshalSrc[id.Name] = string(src[start:end])
						}
					}
				}
			}
		}
	}
	var ctors []string
	for c := range ctorSet {
		ctors = append(ctors, c)
	}
	sort.Strings(ctors)
	optRe := regexp.MustCompile(`if c\.(\w+) != 0 \{`)
	relRe := regexp.MustCompile(`c\.(\w+) = raw\w+\[offset ?: ?offset ?\+ ?int\(c\.(\w+)\)\]`)
	cntRe := regexp.MustCompile(`for i := 0; i < int\(c\.(\w+)\); i\+\+ \{([\s\S]*?)\n\t\}`)
	cntBodyRe := regexp.MustCompile(`c\.(\w+) = append\(c\.|c\.(\w+)\[i\] =`)
	fmtRe := regexp.MustCompile(`c\.(\w+)\.SetBufferFormat\(types\.(SMB_STRING_BUFFER_FORMAT_\w+)\)`)
	restRe := regexp.MustCompile(`c\.(\w+) = raw\w+\[offset:\]`)
	fixRe := regexp.MustCompile(`c\.(\w+) = raw\w+\[offset ?: ?offset ?\+ ?(\d+)\]`)
	// pad lengths the decoder derives from the (constant) parameter-block length
	fixOverride := map[string]int{"SessionSetupAndxResponse.Pad": 1, "SessionSetupAndxRequest.Pad": 1} // 22 parameter bytes + 3 + two passwords of equal length: odd
	var cmds []cmd
	for _, cn := range ctors {
		obj := pkg.Types.Scope().Lookup(cn)
		fn, ok := obj.(*types.Func)
		if !ok {
			continue
		}
		res := fn.Type().(*types.Signature).Results()
		if res.Len() != 1 {
			continue
		}
		pt, ok := res.At(0).Type().(*types.Pointer)
		if !ok {
			continue
		}
		named := pt.Elem().(*types.Named)
		st := named.Underlying().(*types.Struct)
		c := cmd{Name: named.Obj().Name()}
		// IsAndX: declared on the type itself?
		ms := types.NewMethodSet(pt)
		for i := 0; i < ms.Len(); i++ {
			if ms.At(i).Obj().Name() == "IsAndX" && ms.At(i).Obj().Pkg().Path() == cmdPkg {
				c.AndX = true // the per-type override returns true in this code base (checked at run time by the harness)
			}
		}
		rel := map[string]string{}
		lenBy := map[string]string{}
		for _, m := range relRe.FindAllStringSubmatch(unmarshalSrc[c.Name], -1) {
			rel[m[2]] = m[1]
			lenBy[m[1]] = m[2]
		}
		fix := map[string]int{}
		for _, m := range fixRe.FindAllStringSubmatch(unmarshalSrc[c.Name], -1) {
			n, _ := strconv.Atoi(m[2])
			fix[m[1]] = n
		}
		cnt := map[string]string{}
		for _, m := range cntRe.FindAllStringSubmatch(unmarshalSrc[c.Name], -1) {
			if mm := cntBodyRe.FindStringSubmatch(m[2]); mm != nil {
				if mm[1] != "" {
					cnt[m[1]] = mm[1]
				} else {
					cnt[m[1]] = mm[2]
				}
			}
		}
		rest := map[string]bool{}
		for _, m := range restRe.FindAllStringSubmatch(unmarshalSrc[c.Name], -1) {
			rest[m[1]] = true
		}
		strFmt := map[string]string{}
		for _, m := range fmtRe.FindAllStringSubmatch(marshalSrc[c.Name], -1) {
			strFmt[m[1]] = m[2]
		}
		opt := map[string]bool{}
		for _, m := range optRe.FindAllStringSubmatch(marshalSrc[c.Name], -1) {
			opt[m[1]] = true
		}
		for i := 0; i < st.NumFields(); i++ {
			f := st.Field(i)
			if f.Embedded() {
				continue
			}
			fl := field{FixLen: -1, Name: f.Name(), Type: types.TypeString(f.Type(), func(p *types.Package) string { return qual(p) })}
			t := types.Unalias(f.Type())
			switch u := t.Underlying().(type) {
			case *types.Basic:
				if w := intWidth(t); w > 0 {
					fl.Kind, fl.Width = "int", w
				}
			case *types.Slice:
				if w := intWidth(u.Elem()); w == 1 {
					fl.Kind = "bytes"
				} else if w == 2 {
					fl.Kind, fl.Width = "words", 2
				}
			case *types.Array:
				if w := intWidth(u.Elem()); w > 0 {
					fl.Kind, fl.Width, fl.N = "intarray", w, int(u.Len())
				}
			case *types.Struct:
				if n, ok := t.(*types.Named); ok {
					if n.Obj().Name() == "LARGE_INTEGER" {
						fl.Kind, fl.Width = "quad", 8
					} else {
						pm := types.NewMethodSet(types.NewPointer(t))
						for k := 0; k < pm.Len(); k++ {
							if pm.At(k).Obj().Name() == "Marshal" {
								fl.Kind, fl.MType = "marshaler", n.Obj().Name()
							}
						}
					}
				}
			}
			if fl.Kind == "" {
				if sl, ok := t.Underlying().(*types.Slice); ok {
					if est, isStruct := sl.Elem().Underlying().(*types.Struct); isStruct {
						fl.Kind = "emptyslice" // lists of structures are left empty (zero elements contribute no bytes)
						if n, ok := sl.Elem().(*types.Named); ok && n.Obj().Name() == "SMB_DIRECTORY_INFORMATION" {
							fl.Kind = "dirlist"
						}
						allInt := est.NumFields() > 0
						var ef []field
						for k := 0; k < est.NumFields(); k++ {
							w := intWidth(est.Field(k).Type())
							if w == 0 {
								allInt = false
								break
							}
							ef = append(ef, field{Name: est.Field(k).Name(), Width: w, Type: types.TypeString(est.Field(k).Type(), func(p *types.Package) string { return qual(p) })})
						}
						if allInt {
							fl.Kind, fl.Elem = "structlist", ef
							fl.ElemT = types.TypeString(sl.Elem(), func(p *types.Package) string { return qual(p) })
						}
					}
				}
			}
			if c.Name == "NegotiateResponse" && (fl.Name == "DomainName" || fl.Name == "ServerName") {
				fl.Kind = "unicodez" // null-terminated UTF-16 string: the field holds the characters without the terminator
			}
			if c.Name == "NegotiateRequest" && fl.Name == "WordCount" {
				fl.Kind = "framing" // mirrors the count byte of the (empty) parameter block; not a word inside a block
			}
			if fl.Kind == "" {
				fl.Kind = "skip"
			}
			if fl.Kind == "marshaler" && fl.MType == "SMB_STRING" {
				fl.StrFmt = strFmt[fl.Name]
			}
			if fl.Kind == "bytes" {
				fl.LenBy = lenBy[fl.Name]
				fl.Rest = rest[fl.Name]
				if n, ok := fix[fl.Name]; ok {
					fl.FixLen = n
				}
				if n, ok := fixOverride[c.Name+"."+fl.Name]; ok {
					fl.FixLen = n
				}
			}
			if fl.Kind == "int" {
				fl.CountOf = cnt[fl.Name]
				fl.LenOf = rel[fl.Name]
				fl.Opt = opt[fl.Name]
			}
			// conditional emission: the first line of Marshal that uses the field sits inside a nested block
			for _, line := range strings.Split(marshalSrc[c.Name], "\n") {
				if strings.Contains(line, "c."+fl.Name) && !strings.HasPrefix(strings.TrimSpace(line), "//") {
					ind := len(line) - len(strings.TrimLeft(line, "\t"))
					if ind >= 2 && !fl.Opt {
						fl.Cond = true
					}
					if strings.HasPrefix(strings.TrimSpace(line), "if ") && !fl.Opt {
						fl.Cond = true
					}
					break
				}
			}
			c.Fields = append(c.Fields, fl)
		}
		cmds = append(cmds, c)
	}
	sort.Slice(cmds, func(i, j int) bool { return cmds[i].Name < cmds[j].Name })
	emit(out, cmds)
	fmt.Printf("%d command structures\n", len(cmds))
	for _, c := range cmds {
		fmt.Println(c.Name)
	}
}

var fillers = map[string]string{
	"SMB_STRING":          "if c.%[1]s.BufferFormat == 0 {\n\t\tc.%[1]s.SetBufferFormat(types.SMB_STRING_BUFFER_FORMAT_NULL_TERMINATED_ASCII_STRING) // the constructor leaves the format unset\n\t}\n\tc.%[1]s.Buffer = noNUL(vSpare(%[2]q, L))\n\tc.%[1]s.Length = types.USHORT(L)",
	"OEM_STRING":          "c.%[1]s.SetString(string(noNUL(vBytes(%[2]q, L))))",
	"FILETIME":            "c.%[1]s = types.FILETIME{DwLowDateTime: vU32(%[2]q + \".lo\"), DwHighDateTime: vU32(%[2]q + \".hi\")}",
	"SMB_DATE":            "c.%[1]s = symDate(%[2]q)",
	"SMB_FILE_ATTRIBUTES": "c.%[1]s = types.SMB_FILE_ATTRIBUTES{Attributes: vU16(%[2]q)}",
	"SMB_NMPIPE_STATUS":   "c.%[1]s = types.SMB_NMPIPE_STATUS{ICount: vU8(%[2]q + \".icount\"), Flags: vU8(%[2]q + \".flags\")}",
	"SMB_RESUME_KEY":      "c.%[1]s = *types.NewSMB_RESUME_KEY()\n\tc.%[1]s.Reserved = vU8(%[2]q + \".reserved\")\n\tcopy(c.%[1]s.ServerState[:], vBytes(%[2]q+\".server\", 16))\n\tcopy(c.%[1]s.ClientState[:], vBytes(%[2]q+\".client\", 4))",
	"Dialects":            "c.%[1]s.Dialects = []string{\"NT LM 0.12\", string(noNUL(vBytes(%[2]q, L)))} // a well-known dialect and one of arbitrary (NUL-free) bytes",
}

// pad lengths the decoder derives from other lengths (must be filled after the buffers they depend on: declared order)
var fixExpr = map[string]string{
	"SessionSetupAndxRequest.Pad": "(22 + 3 + len(c.OEMPassword) + len(c.UnicodePassword)) % 2",
}

func emit(out string, cmds []cmd) {
	var sb strings.Builder
	sb.WriteString(`package commands

// Code generated by /verif/engine/cmd/gencmds from the command structures reachable from the factories; DO NOT EDIT.
// One harness per structure. Check ids are prefixed C03/, C04/ or C05/ and are selected per property by the spec.

import (
	"github.com/TheManticoreProject/Manticore/network/smb/smb_v10/capabilities"
	"github.com/TheManticoreProject/Manticore/network/smb/smb_v10/message/commands/command_interface"
	"github.com/TheManticoreProject/Manticore/network/smb/smb_v10/securitymode"
	"github.com/TheManticoreProject/Manticore/network/smb/smb_v10/types"
)

var _ command_interface.CommandInterface
var _ types.UCHAR
var _ capabilities.Capabilities
var _ securitymode.SecurityMode

`)
	sb.WriteString("// c03TypeName names the dynamic type of a command (generated from the factories' constructors).\nfunc c03TypeName(c command_interface.CommandInterface) string {\n\tswitch c.(type) {\n")
	for _, c := range cmds {
		fmt.Fprintf(&sb, "\tcase *%s:\n\t\treturn %q\n", c.Name, c.Name)
	}
	sb.WriteString("\t}\n\treturn \"?\"\n}\n\n")
	sb.WriteString("// VFill fills a factory-made command like the per-structure harnesses do (used by the whole-message harness).\nfunc VFill(ci command_interface.CommandInterface, L int) {\n\tswitch c := ci.(type) {\n")
	for _, c := range cmds {
		fmt.Fprintf(&sb, "\tcase *%s:\n\t\tvfill%s(c, L)\n", c.Name, c.Name)
	}
	sb.WriteString("\t}\n}\n\n")
	for _, c := range cmds {
		n := c.Name
		fmt.Fprintf(&sb, "// vfill%s gives every field of c a fresh symbolic value (buffers of L bytes, length/count fields consistent).\nfunc vfill%s(c *%s, L int) {\n", n, n, n)
		// fill
		lenTargets := map[string]bool{}
		for _, f := range c.Fields {
			if f.LenOf != "" {
				lenTargets[f.Name] = true
			}
		}
		// buffers described by different length fields get different lengths (L, L+1, L+2, ...), so that a decoder
		// which advances by a sibling's length is not hidden by equal sizes
		lenExpr := map[string]string{}
		{
			k := 0
			for _, f := range c.Fields {
				if f.Kind == "int" && f.LenOf != "" {
					lenExpr[f.Name] = []string{"L", "L + 1", "L + 2"}[k%3]
					k++
				}
			}
		}
		listExpr := map[string]string{}
		{
			k := 0
			for _, f := range c.Fields {
				if f.Kind == "structlist" {
					listExpr[f.Name] = []string{"L", "L + 1"}[k%2]
					k++
				}
			}
		}
		for _, f := range c.Fields {
			tag := n + "." + f.Name
			switch f.Kind {
			case "unicodez":
				fmt.Fprintf(&sb, "\tc.%s = noNUL16(vSpare(%q, L&^1))\n", f.Name, tag)
			case "dirlist":
				fmt.Fprintf(&sb, "\tfor i := 0; i < L/2; i++ {\n\t\tc.%s = append(c.%s, symDirInfo(%q+string(rune('a'+i))))\n\t}\n", f.Name, f.Name, tag)
			case "structlist":
				fmt.Fprintf(&sb, "\tfor i := 0; i < %s; i++ {\n\t\tvar e %s\n", listExpr[f.Name], f.ElemT)
				for _, ef := range f.Elem {
					fmt.Fprintf(&sb, "\t\te.%s = %s(vU%d(%q + string(rune('a'+i))))\n", ef.Name, ef.Type, 8*ef.Width, tag+"."+ef.Name)
				}
				fmt.Fprintf(&sb, "\t\tc.%s = append(c.%s, e)\n\t}\n", f.Name, f.Name)
			case "int":
				if f.CountOf != "" {
					ce := listExpr[f.CountOf]
					if ce == "" {
						ce = "L"
					}
					fmt.Fprintf(&sb, "\tc.%s = %s(%s) // number of elements of %s (relation read from Unmarshal)\n", f.Name, f.Type, ce, f.CountOf)
				} else if f.LenOf != "" {
					fmt.Fprintf(&sb, "\tc.%s = %s(%s) // length of %s (relation read from Unmarshal)\n", f.Name, f.Type, lenExpr[f.Name], f.LenOf)
				} else {
					fmt.Fprintf(&sb, "\tc.%s = %s(vU%d(%q))\n", f.Name, f.Type, 8*f.Width, tag)
				}
			case "quad":
				fmt.Fprintf(&sb, "\tc.%s.QuadPart = vU64(%q)\n", f.Name, tag)
			case "bytes":
				if ex, ok := fixExpr[n+"."+f.Name]; ok {
					fmt.Fprintf(&sb, "\tc.%s = vSpare(%q, %s) // the decoder derives this length (alignment convention)\n", f.Name, tag, ex)
				} else if f.FixLen >= 0 {
					fmt.Fprintf(&sb, "\tc.%s = vSpare(%q, %d) // the decoder fixes this length (pad convention)\n", f.Name, tag, f.FixLen)
				} else if ex, ok := lenExpr[f.LenBy]; ok {
					fmt.Fprintf(&sb, "\tc.%s = vSpare(%q, %s)\n", f.Name, tag, ex)
				} else {
					fmt.Fprintf(&sb, "\tc.%s = vSpare(%q, L)\n", f.Name, tag)
				}
			case "words":
				fmt.Fprintf(&sb, "\tfor i := 0; i < L; i++ {\n\t\tc.%s = append(c.%s, %s(vU16(%q+string(rune('a'+i)))))\n\t}\n", f.Name, f.Name, strings.TrimPrefix(f.Type, "[]"), tag)
			case "intarray":
				fmt.Fprintf(&sb, "\tfor i := 0; i < %d; i++ {\n\t\tc.%s[i] = %s(vU%d(%q + string(rune('a'+i))))\n\t}\n", f.N, f.Name, strings.SplitN(f.Type, "]", 2)[1], 8*f.Width, tag)
			case "marshaler":
				if f.MType == "SMB_STRING" && strings.Contains(f.StrFmt, "VARIABLE_BLOCK") {
					// a counted buffer: any byte values, NUL included
					fmt.Fprintf(&sb, "\tc.%[1]s.SetBufferFormat(types.%[3]s)\n\tc.%[1]s.Buffer = vSpare(%[2]q, L)\n\tc.%[1]s.Length = types.USHORT(L)\n", f.Name, tag, f.StrFmt)
				} else if fl, ok := fillers[f.MType]; ok {
					fmt.Fprintf(&sb, "\t"+fl+"\n", f.Name, tag)
				}
			}
		}
		if c.AndX {
			fmt.Fprintf(&sb, "\tc.SetAndX(symAndX(%q)) // an arbitrary AndX block (command, reserved, offset)\n", n)
		}
		fmt.Fprintf(&sb, "}\n\nfunc H_CMD_%s() {\n\tL := vParam(\"len\")\n\tc := New%s()\n\tvfill%s(c, L)\n", n, n, n)
		if c.AndX {
			sb.WriteString("\twantAndX := *c.GetAndX() // the block the caller set: Marshal must emit it, not a replacement\n")
		}
		sb.WriteString("\traw, err := c.Marshal()\n")
		fmt.Fprintf(&sb, "\tcheckSpares(%q)\n", n)
		fmt.Fprintf(&sb, "\tvCheck(err == nil, \"C03/%s/marshal-ok\")\n\tif err != nil {\n\t\treturn\n\t}\n", n)
		fmt.Fprintf(&sb, "\tparams, data, ok := splitBlocks(raw, %q)\n\tif !ok {\n\t\treturn\n\t}\n", n)
		if c.AndX {
			fmt.Fprintf(&sb, "\tpos := 0\n\tif c.IsAndX() {\n\t\tpos = checkAndX(params, &wantAndX, %q)\n\t}\n\tblk, inData := params, false\n\t_, _ = blk, inData\n", n)
		} else {
			fmt.Fprintf(&sb, "\tpos := 0\n\tvCheck(!c.IsAndX(), \"C04/%s/not-an-andx-command\")\n\tblk, inData := params, false\n\t_, _ = blk, inData\n", n)
		}
		layoutStopped := false
		for _, f := range c.Fields {
			if f.Cond && !layoutStopped {
				fmt.Fprintf(&sb, "\t// %s is emitted under a run-time condition: the positional layout check stops here\n", f.Name)
				layoutStopped = true
			}
			if layoutStopped {
				continue
			}
			id := n + "/" + f.Name
			next := "\tif !inData && pos == len(blk) {\n\t\tblk, pos, inData = data, 0, true\n\t}\n"
			switch f.Kind {
			case "int":
				if f.Opt {
					// the field is emitted only when it is non-zero
					fmt.Fprintf(&sb, "\tif c.%s != 0 {\n", f.Name)
					sb.WriteString(strings.ReplaceAll(next, "\t", "\t\t")[1:])
					fmt.Fprintf(&sb, "\t\tpos = checkInt(blk, pos, uint64(c.%s), %d, %q)\n\t}\n", f.Name, f.Width, id)
				} else {
					sb.WriteString(next)
					fmt.Fprintf(&sb, "\tpos = checkInt(blk, pos, uint64(c.%s), %d, %q)\n", f.Name, f.Width, id)
				}
			case "quad":
				sb.WriteString(next)
				fmt.Fprintf(&sb, "\tpos = checkInt(blk, pos, uint64(c.%s.QuadPart), 8, %q)\n", f.Name, id)
			case "intarray":
				sb.WriteString(next)
				fmt.Fprintf(&sb, "\tfor i := 0; i < %d; i++ {\n\t\tpos = checkInt(blk, pos, uint64(c.%s[i]), %d, %q)\n\t}\n", f.N, f.Name, f.Width, id)
			case "words":
				sb.WriteString(next)
				fmt.Fprintf(&sb, "\tfor i := range c.%s {\n\t\tpos = checkInt(blk, pos, uint64(c.%s[i]), 2, %q)\n\t}\n", f.Name, f.Name, id)
			case "bytes":
				sb.WriteString("\tif !inData {\n\t\tvCheck(coversParams(blk, pos), \"C04/" + n + "/parameter-block-exactly-covers-the-fixed-fields\")\n\t\tblk, pos, inData = data, 0, true\n\t}\n")
				fmt.Fprintf(&sb, "\tpos = checkBytes(blk, pos, c.%s, %q)\n", f.Name, id)
			case "marshaler":
				sb.WriteString(next)
				fmt.Fprintf(&sb, "\t{\n\t\tenc, _ := c.%s.Marshal()\n\t\tpos = checkBytes(blk, pos, enc, %q)\n\t}\n", f.Name, id)
			case "dirlist":
				sb.WriteString(next)
				fmt.Fprintf(&sb, "\tfor i := range c.%s {\n\t\tenc, _ := c.%s[i].Marshal()\n\t\tpos = checkBytes(blk, pos, enc, %q)\n\t}\n", f.Name, f.Name, id)
			case "structlist":
				sb.WriteString(next)
				fmt.Fprintf(&sb, "\tfor i := range c.%s {\n\t\tenc, _ := c.%s[i].Marshal()\n\t\tpos = checkBytes(blk, pos, enc, %q)\n\t}\n", f.Name, f.Name, id)
			case "unicodez":
				sb.WriteString("\tif !inData {\n\t\tvCheck(coversParams(blk, pos), \"C04/" + n + "/parameter-block-exactly-covers-the-fixed-fields\")\n\t\tblk, pos, inData = data, 0, true\n\t}\n")
				fmt.Fprintf(&sb, "\tpos = checkBytes(blk, pos, append(append([]byte{}, c.%s...), 0, 0), %q)\n", f.Name, id)
			case "framing":
				fmt.Fprintf(&sb, "\t// %s mirrors the block's count byte; it occupies no slot\n", f.Name)
			case "emptyslice":
				fmt.Fprintf(&sb, "\t// %s (%s) is left empty: it contributes no bytes\n", f.Name, f.Type)
			default:
				fmt.Fprintf(&sb, "\t// field %s of type %s is not classified: the layout check stops here\n\tvCover(\"unclassified\")\n\treturn\n", f.Name, f.Type)
			}
		}
		if layoutStopped {
			sb.WriteString("\t_ = pos\n")
		}
		if !layoutStopped {
			fmt.Fprintf(&sb, "\tif !inData {\n\t\tvCheck(coversParams(params, pos), \"C04/%s/parameter-block-exactly-covers-the-fields\")\n\t\tvCheck(len(data) == 0, \"C04/%s/data-block-empty\")\n\t} else {\n\t\tvCheck(pos == len(data), \"C04/%s/data-block-exactly-covers-the-fields\")\n\t}\n", n, n, n)
		}
		// round trip
		fmt.Fprintf(&sb, "\td := New%s()\n\td.Init()\n\t_, err = d.Unmarshal(raw)\n\tvCheck(err == nil, \"C04/%s/unmarshal-of-own-encoding-ok\")\n\tif err == nil {\n", n, n)
		if c.AndX {
			fmt.Fprintf(&sb, "\t\tvCheck(d.GetAndX() != nil && *d.GetAndX() == wantAndX, \"C04/%s/andx/roundtrip\")\n", n)
		}
		for _, f := range c.Fields {
			id := "C04/" + n + "/" + f.Name + "/roundtrip"
			id5 := "C05/" + n + "/" + f.Name + "/decoded-from-its-little-endian-slot"
			id5s := "C05/" + n + "/" + f.Name + "/decoded-from-the-place-and-format-MS-CIFS-gives-it"
			switch f.Kind {
			case "int", "intarray":
				fmt.Fprintf(&sb, "\t\tvCheck(d.%s == c.%s, %q)\n", f.Name, f.Name, id)
				fmt.Fprintf(&sb, "\t\tvCheck(d.%s == c.%s, %q)\n", f.Name, f.Name, id5)
			case "quad":
				fmt.Fprintf(&sb, "\t\tvCheck(d.%s.QuadPart == c.%s.QuadPart, %q)\n", f.Name, f.Name, id)
				fmt.Fprintf(&sb, "\t\tvCheck(d.%s.QuadPart == c.%s.QuadPart, %q)\n", f.Name, f.Name, id5)
			case "bytes":
				if lenTargetOf(c, f.Name) || f.FixLen >= 0 || f.Rest {
					fmt.Fprintf(&sb, "\t\tvCheck(vBytesEq(d.%s, c.%s), %q)\n", f.Name, f.Name, id)
					fmt.Fprintf(&sb, "\t\tvCheck(vBytesEq(d.%s, c.%s), %q)\n", f.Name, f.Name, id5s)
				}
			case "unicodez":
				fmt.Fprintf(&sb, "\t\tvCheck(vBytesEq(d.%s, c.%s), %q)\n", f.Name, f.Name, id)
				fmt.Fprintf(&sb, "\t\tvCheck(vBytesEq(d.%s, c.%s), %q)\n", f.Name, f.Name, id5s)
			case "words":
				fmt.Fprintf(&sb, "\t\tvCheck(len(d.%s) == len(c.%s), %q)\n\t\tif len(d.%s) == len(c.%s) {\n\t\t\tfor i := range c.%s {\n\t\t\t\tvCheck(d.%s[i] == c.%s[i], %q)\n\t\t\t}\n\t\t}\n", f.Name, f.Name, "C04/"+n+"/"+f.Name+"/count-roundtrip", f.Name, f.Name, f.Name, f.Name, f.Name, id)
			case "dirlist":
				fmt.Fprintf(&sb, "\t\tvCheck(len(d.%s) == len(c.%s), %q)\n\t\tif len(d.%s) == len(c.%s) {\n\t\t\tfor i := range c.%s {\n\t\t\t\ta, _ := d.%s[i].Marshal()\n\t\t\t\tb, _ := c.%s[i].Marshal()\n\t\t\t\tvCheck(vBytesEq(a, b), %q)\n\t\t\t}\n\t\t}\n", f.Name, f.Name, "C04/"+n+"/"+f.Name+"/count-roundtrip", f.Name, f.Name, f.Name, f.Name, f.Name, id)
			case "structlist":
				fmt.Fprintf(&sb, "\t\tvCheck(len(d.%s) == len(c.%s), %q)\n\t\tif len(d.%s) == len(c.%s) {\n\t\t\tfor i := range c.%s {\n\t\t\t\tvCheck(d.%s[i] == c.%s[i], %q)\n\t\t\t}\n\t\t}\n", f.Name, f.Name, "C04/"+n+"/"+f.Name+"/count-roundtrip", f.Name, f.Name, f.Name, f.Name, f.Name, id)
				fmt.Fprintf(&sb, "\t\tif len(d.%s) == len(c.%s) {\n\t\t\tfor i := range c.%s {\n\t\t\t\tvCheck(d.%s[i] == c.%s[i], %q)\n\t\t\t}\n\t\t}\n", f.Name, f.Name, f.Name, f.Name, f.Name, id5s)
			case "marshaler":
				fmt.Fprintf(&sb, "\t\t{\n\t\t\ta, _ := d.%s.Marshal()\n\t\t\tb, _ := c.%s.Marshal()\n\t\t\tvCheck(vBytesEq(a, b), %q)\n\t\t}\n", f.Name, f.Name, id)
			}
		}
		fmt.Fprintf(&sb, "\t\tagain, err := d.Marshal()\n\t\tvCheck(err == nil && vBytesEq(again, raw), \"C04/%s/re-encoding-the-decoded-command-gives-the-same-bytes\")\n\t}\n", n)
		fmt.Fprintf(&sb, "\tsecond, err := c.Marshal()\n\tvCheck(err == nil && vBytesEq(second, raw), \"C03/%s/second-marshal-identical\")\n", n)
		sb.WriteString("\tvCover(\"end\")\n}\n\n")
	}
	os.WriteFile(out, []byte(sb.String()), 0o644)
}

func lenTargetOf(c cmd, buf string) bool {
	for _, f := range c.Fields {
		if f.LenOf == buf {
			return true
		}
	}
	return false
}
