package sym

import (
	"bufio"
	"fmt"
	"io"
	"math/big"
	"os/exec"
	"strings"
	"time"
)

type Result int

const (
	Unsat Result = iota
	Sat
	Unknown
)

func (r Result) String() string { return [...]string{"unsat", "sat", "unknown"}[r] }

// SolverKind names a back end and its command line.
type SolverKind struct {
	Name string
	Argv []string
}

var (
	Z3New   = SolverKind{"z3-5.1", []string{"z3-new", "-in"}}
	Z3Old   = SolverKind{"z3-4.8.12", []string{"z3", "-in"}}
	CVC5    = SolverKind{"cvc5-1.0", []string{"cvc5", "--incremental", "--produce-models", "--lang=smt2"}}
	CVC5Int = SolverKind{"cvc5-1.0-bv-as-int", []string{"cvc5", "--incremental", "--produce-models", "--lang=smt2", "--solve-bv-as-int=sum"}}
)

// Stats of one solver (or merged).
type Stats struct {
	Sat, Unsat, Unknown, Errors int
	Time                        time.Duration
	MaxQuery                    time.Duration
	Restarts                    int
}

func (s *Stats) Add(o Stats) {
	s.Sat += o.Sat
	s.Unsat += o.Unsat
	s.Unknown += o.Unknown
	s.Errors += o.Errors
	s.Time += o.Time
	if o.MaxQuery > s.MaxQuery {
		s.MaxQuery = o.MaxQuery
	}
	s.Restarts += o.Restarts
}

// Solver is one live solver process bound to one Table.
type Solver struct {
	Kind      SolverKind
	tb        *Table
	cmd       *exec.Cmd
	in        io.WriteCloser
	out       *bufio.Reader
	defined   map[int]bool
	declared  map[string]bool
	Stats     Stats
	TimeoutMs int
	Log       io.Writer // optional transcript
	dead      bool
	queries   int
	stack     []*Term // path-condition terms currently asserted, one push level each
}

func NewSolver(kind SolverKind, tb *Table, timeoutMs int) *Solver {
	s := &Solver{Kind: kind, tb: tb, TimeoutMs: timeoutMs}
	s.start()
	return s
}

func (s *Solver) start() {
	s.defined = map[int]bool{}
	s.declared = map[string]bool{}
	argv := append([]string{}, s.Kind.Argv...)
	if strings.HasPrefix(s.Kind.Name, "cvc5") {
		argv = append(argv, fmt.Sprintf("--tlimit-per=%d", s.TimeoutMs))
	}
	s.cmd = exec.Command(argv[0], argv[1:]...)
	var err error
	s.in, err = s.cmd.StdinPipe()
	if err != nil {
		panic(err)
	}
	op, err := s.cmd.StdoutPipe()
	if err != nil {
		panic(err)
	}
	s.cmd.Stderr = nil
	s.out = bufio.NewReaderSize(op, 1<<16)
	if err := s.cmd.Start(); err != nil {
		panic(fmt.Sprintf("cannot start solver %v: %v", argv, err))
	}
	s.dead = false
	if strings.HasPrefix(s.Kind.Name, "z3") {
		s.send(fmt.Sprintf("(set-option :timeout %d)", s.TimeoutMs))
	} else {
		s.send("(set-logic ALL)")
	}
	s.send("(set-option :print-success false)")
	s.send("(set-option :global-declarations true)")
	s.stack = nil
}

func (s *Solver) Close() {
	if s.cmd != nil && s.cmd.Process != nil {
		s.in.Close()
		s.cmd.Process.Kill()
		s.cmd.Wait()
	}
	s.dead = true
}

func (s *Solver) restart() {
	s.Close()
	s.Stats.Restarts++
	s.start()
}

func (s *Solver) send(line string) {
	if s.Log != nil {
		fmt.Fprintln(s.Log, line)
	}
	io.WriteString(s.in, line)
	io.WriteString(s.in, "\n")
}

// define makes sure t and everything below it is known to the solver (level 0).
func (s *Solver) define(t *Term, sb *strings.Builder) {
	type fr struct {
		t *Term
		i int
	}
	stack := []fr{{t, 0}}
	for len(stack) > 0 {
		f := &stack[len(stack)-1]
		n := f.t
		if n.Op == OpConst || s.defined[n.ID] {
			stack = stack[:len(stack)-1]
			continue
		}
		if n.Op == OpVar {
			if !s.declared[n.Name] {
				s.declared[n.Name] = true
				fmt.Fprintf(sb, "(declare-const %s %s)\n", n.Ref(), n.Sort())
			}
			s.defined[n.ID] = true
			stack = stack[:len(stack)-1]
			continue
		}
		if f.i < len(n.Args) {
			a := n.Args[f.i]
			f.i++
			if a.Op != OpConst && !s.defined[a.ID] {
				stack = append(stack, fr{a, 0})
			}
			continue
		}
		if n.Op == OpUF {
			key := "uf!" + n.Name
			if !s.declared[key] {
				s.declared[key] = true
				sig := s.tb.UFs[n.Name]
				sb.WriteString("(declare-fun " + smtName(key) + " (")
				for _, w := range sig[:len(sig)-1] {
					sb.WriteString(sortOf(w) + " ")
				}
				sb.WriteString(") " + sortOf(sig[len(sig)-1]) + ")\n")
			}
		}
		fmt.Fprintf(sb, "(define-fun t%d () %s %s)\n", n.ID, n.Sort(), n.Def())
		s.defined[n.ID] = true
		stack = stack[:len(stack)-1]
	}
}

// Leaves returns variables and UF applications reachable from ts.
func Leaves(ts []*Term) (vars []*Term, apps []*Term) { return collectLeaves(ts) }

// collectLeaves returns variables and UF applications reachable from ts.
func collectLeaves(ts []*Term) (vars []*Term, apps []*Term) {
	seen := map[int]bool{}
	var stack []*Term
	stack = append(stack, ts...)
	for len(stack) > 0 {
		n := stack[len(stack)-1]
		stack = stack[:len(stack)-1]
		if seen[n.ID] {
			continue
		}
		seen[n.ID] = true
		switch n.Op {
		case OpVar:
			vars = append(vars, n)
		case OpUF:
			apps = append(apps, n)
		}
		stack = append(stack, n.Args...)
	}
	return
}

type lineRes struct {
	s   string
	err error
}

func (s *Solver) readLine(deadline time.Duration) (string, error) {
	ch := make(chan lineRes, 1)
	go func() {
		l, err := s.out.ReadString('\n')
		ch <- lineRes{l, err}
	}()
	select {
	case r := <-ch:
		return strings.TrimRight(r.s, "\r\n"), r.err
	case <-time.After(deadline):
		return "", fmt.Errorf("solver hard timeout")
	}
}

// readSexp reads one balanced s-expression (possibly over several lines).
func (s *Solver) readSexp(deadline time.Duration) (string, error) {
	var sb strings.Builder
	depth := 0
	started := false
	inBar := false
	for {
		l, err := s.readLine(deadline)
		if err != nil {
			return sb.String(), err
		}
		sb.WriteString(l)
		sb.WriteByte('\n')
		for _, c := range l {
			if c == '|' {
				inBar = !inBar
			}
			if inBar {
				continue
			}
			if c == '(' {
				depth++
				started = true
			} else if c == ')' {
				depth--
			}
		}
		if started && depth <= 0 {
			return sb.String(), nil
		}
		if !started && strings.TrimSpace(l) != "" {
			return sb.String(), nil
		}
	}
}

// Check decides the conjunction of the assertions. With wantModel, a Sat answer
// comes with values for every variable and UF application reachable from them.
func (s *Solver) Check(assertions []*Term, wantModel bool) (Result, *Model) {
	return s.CheckInc(assertions, 0, wantModel)
}

// CheckInc is Check where the first nBase assertions form a prefix that is kept asserted between calls.
func (s *Solver) CheckInc(assertions []*Term, nBase int, wantModel bool) (Result, *Model) {
	if s.dead {
		s.start()
	}
	s.queries++
	if s.queries%4000 == 0 { // keep solver memory in check
		s.restart()
	}
	t0 := time.Now()
	defer func() {
		d := time.Since(t0)
		s.Stats.Time += d
		if d > s.Stats.MaxQuery {
			s.Stats.MaxQuery = d
		}
	}()
	var sb strings.Builder
	for _, a := range assertions {
		s.define(a, &sb)
	}
	// incremental: the first nBase assertions are the path condition (stable prefix across queries)
	k := 0
	for k < len(s.stack) && k < nBase && s.stack[k] == assertions[k] {
		k++
	}
	if len(s.stack) > k {
		fmt.Fprintf(&sb, "(pop %d)\n", len(s.stack)-k)
		s.stack = s.stack[:k]
	}
	for _, a := range assertions[k:nBase] {
		sb.WriteString("(push 1)\n(assert " + a.Ref() + ")\n")
		s.stack = append(s.stack, a)
	}
	sb.WriteString("(push 1)\n")
	for _, a := range assertions[nBase:] {
		sb.WriteString("(assert " + a.Ref() + ")\n")
	}
	sb.WriteString("(check-sat)")
	s.send(sb.String())
	hard := time.Duration(s.TimeoutMs)*time.Millisecond*2 + 10*time.Second
	var ans string
	for {
		l, err := s.readLine(hard)
		if err != nil {
			s.Stats.Errors++
			s.Stats.Unknown++
			s.restart()
			return Unknown, nil
		}
		l = strings.TrimSpace(l)
		if l == "" {
			continue
		}
		if strings.HasPrefix(l, "(error") {
			s.Stats.Errors++
			s.Stats.Unknown++
			// drain: an error may be followed by the check-sat answer; safest is a restart
			s.restart()
			return Unknown, nil
		}
		ans = l
		break
	}
	res := Unknown
	switch ans {
	case "sat":
		res = Sat
		s.Stats.Sat++
	case "unsat":
		res = Unsat
		s.Stats.Unsat++
	default:
		s.Stats.Unknown++
	}
	var model *Model
	if res == Sat && wantModel {
		vars, apps := collectLeaves(assertions)
		model = &Model{Vars: map[string]*big.Int{}, Apps: map[int]*big.Int{}}
		all := append(append([]*Term{}, vars...), apps...)
		for i := 0; i < len(all); i += 200 {
			j := i + 200
			if j > len(all) {
				j = len(all)
			}
			var q strings.Builder
			q.WriteString("(get-value (")
			for _, v := range all[i:j] {
				q.WriteString(v.Ref() + " ")
			}
			q.WriteString("))")
			s.send(q.String())
			out, err := s.readSexp(hard)
			if err != nil || strings.Contains(out, "(error") {
				s.Stats.Errors++
				s.restart()
				return Unknown, nil
			}
			vals := parseValues(out)
			if len(vals) != j-i {
				s.Stats.Errors++
				s.restart()
				return Unknown, nil
			}
			for k, v := range all[i:j] {
				if v.Op == OpVar {
					model.Vars[v.Name] = vals[k]
				} else {
					model.Apps[v.ID] = vals[k]
				}
			}
		}
	}
	if !s.dead {
		s.send("(pop 1)")
	}
	return res, model
}

// parseValues extracts the value of each (expr value) pair of a get-value answer.
func parseValues(out string) []*big.Int {
	// tokenise
	var toks []string
	i := 0
	for i < len(out) {
		c := out[i]
		switch {
		case c == '(' || c == ')':
			toks = append(toks, string(c))
			i++
		case c == ' ' || c == '\n' || c == '\t' || c == '\r':
			i++
		case c == '|':
			j := strings.IndexByte(out[i+1:], '|')
			if j < 0 {
				j = len(out) - i - 2
			}
			toks = append(toks, out[i:i+j+2])
			i += j + 2
		default:
			j := i
			for j < len(out) && !strings.ContainsRune("() \n\t\r", rune(out[j])) {
				j++
			}
			toks = append(toks, out[i:j])
			i = j
		}
	}
	// structure: ( (expr val) (expr val) ... ); expr may itself be parenthesised (UF app printed back)
	var vals []*big.Int
	depth := 0
	var last string
	for _, t := range toks {
		switch t {
		case "(":
			depth++
		case ")":
			if depth == 2 {
				vals = append(vals, parseVal(last))
			}
			depth--
			last = ")"
		default:
			last = t
		}
	}
	return vals
}

func parseVal(t string) *big.Int {
	switch {
	case t == "true":
		return big.NewInt(1)
	case t == "false":
		return big.NewInt(0)
	case strings.HasPrefix(t, "#x"):
		v, _ := new(big.Int).SetString(t[2:], 16)
		return v
	case strings.HasPrefix(t, "#b"):
		v, _ := new(big.Int).SetString(t[2:], 2)
		return v
	}
	return big.NewInt(0)
}
