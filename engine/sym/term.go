// Package sym is the term layer of the symbolic executor: hash-consed
// bit-vector / boolean terms with constant folding, evaluation under a model and
// SMT-LIB2 printing.
package sym

import (
	"fmt"
	"math/big"
	"strings"
)

type Op uint8

const (
	OpConst Op = iota // BV constant (W>0) or Bool constant (W==0)
	OpVar
	OpAdd
	OpSub
	OpMul
	OpUDiv
	OpURem
	OpSDiv
	OpSRem
	OpAnd
	OpOr
	OpXor
	OpNot // bitwise (BV) or logical (Bool)
	OpNeg
	OpShl
	OpLShr
	OpAShr
	OpConcat  // args hi..lo
	OpExtract // Hi, Lo
	OpZExt
	OpSExt
	OpIte
	OpEq
	OpULt
	OpULe
	OpSLt
	OpSLe
	OpBAnd // boolean n-ary
	OpBOr
	OpUF // uninterpreted function: Name, args; result width W
)

var opNames = map[Op]string{
	OpAdd: "bvadd", OpSub: "bvsub", OpMul: "bvmul", OpUDiv: "bvudiv", OpURem: "bvurem",
	OpSDiv: "bvsdiv", OpSRem: "bvsrem", OpAnd: "bvand", OpOr: "bvor", OpXor: "bvxor",
	OpShl: "bvshl", OpLShr: "bvlshr", OpAShr: "bvashr", OpConcat: "concat",
	OpEq: "=", OpULt: "bvult", OpULe: "bvule", OpSLt: "bvslt", OpSLe: "bvsle",
	OpBAnd: "and", OpBOr: "or", OpIte: "ite",
}

// Term is an immutable hash-consed node. W == 0 means Bool.
type Term struct {
	ID   int
	Op   Op
	W    int
	Args []*Term
	Val  *big.Int // OpConst (Bool: 0/1)
	Name string   // OpVar / OpUF
	Hi   int      // OpExtract
	Lo   int
	Size int // DAG size estimate (tree size capped)
}

func (t *Term) IsConst() bool { return t.Op == OpConst }
func (t *Term) IsBool() bool  { return t.W == 0 }

// Uint64 returns the constant value (must be const, width<=64).
func (t *Term) Uint64() uint64 { return t.Val.Uint64() }

// Int64 returns the constant interpreted as signed at its width.
func (t *Term) Int64() int64 {
	v := t.Val.Uint64()
	if t.W < 64 && t.W > 0 {
		if v&(1<<(uint(t.W)-1)) != 0 {
			v |= ^uint64(0) << uint(t.W)
		}
	}
	return int64(v)
}
func (t *Term) IsTrue() bool  { return t.Op == OpConst && t.W == 0 && t.Val.Sign() != 0 }
func (t *Term) IsFalse() bool { return t.Op == OpConst && t.W == 0 && t.Val.Sign() == 0 }

// Table owns all terms of one exploration.
type Table struct {
	nodes  map[string]*Term
	All    []*Term
	True   *Term
	False  *Term
	Vars   []*Term
	varIdx map[string]*Term
	UFs    map[string][]int // name -> arg widths + ret width (last)
}

func NewTable() *Table {
	tb := &Table{nodes: map[string]*Term{}, varIdx: map[string]*Term{}, UFs: map[string][]int{}}
	tb.True = tb.mk(&Term{Op: OpConst, W: 0, Val: big.NewInt(1)})
	tb.False = tb.mk(&Term{Op: OpConst, W: 0, Val: big.NewInt(0)})
	return tb
}

func (tb *Table) key(t *Term) string {
	var sb strings.Builder
	fmt.Fprintf(&sb, "%d|%d|", t.Op, t.W)
	switch t.Op {
	case OpConst:
		sb.WriteString(t.Val.Text(16))
	case OpVar:
		sb.WriteString(t.Name)
	case OpExtract:
		fmt.Fprintf(&sb, "%d:%d|", t.Hi, t.Lo)
	case OpUF:
		sb.WriteString(t.Name)
		sb.WriteByte('|')
	}
	for _, a := range t.Args {
		fmt.Fprintf(&sb, "%d,", a.ID)
	}
	return sb.String()
}

func (tb *Table) mk(t *Term) *Term {
	k := tb.key(t)
	if x, ok := tb.nodes[k]; ok {
		return x
	}
	t.ID = len(tb.All)
	t.Size = 1
	for _, a := range t.Args {
		t.Size += a.Size
		if t.Size > 1<<30 {
			t.Size = 1 << 30
		}
	}
	tb.All = append(tb.All, t)
	tb.nodes[k] = t
	return t
}

func mask(w int) *big.Int {
	m := new(big.Int).Lsh(big.NewInt(1), uint(w))
	return m.Sub(m, big.NewInt(1))
}

func norm(v *big.Int, w int) *big.Int {
	r := new(big.Int).And(v, mask(w))
	return r
}

func toSigned(v *big.Int, w int) *big.Int {
	if v.Bit(w-1) == 1 {
		return new(big.Int).Sub(v, new(big.Int).Lsh(big.NewInt(1), uint(w)))
	}
	return new(big.Int).Set(v)
}

func (tb *Table) Bool(b bool) *Term {
	if b {
		return tb.True
	}
	return tb.False
}

func (tb *Table) Const(w int, v uint64) *Term {
	if w <= 0 {
		panic("Const width")
	}
	return tb.mk(&Term{Op: OpConst, W: w, Val: norm(new(big.Int).SetUint64(v), w)})
}

func (tb *Table) ConstI(w int, v int64) *Term {
	return tb.ConstBig(w, big.NewInt(v))
}

func (tb *Table) ConstBig(w int, v *big.Int) *Term {
	vv := new(big.Int).Set(v)
	if vv.Sign() < 0 {
		vv.Add(vv, new(big.Int).Lsh(big.NewInt(1), uint(w)))
		if vv.Sign() < 0 {
			vv.Mod(v, new(big.Int).Lsh(big.NewInt(1), uint(w)))
		}
	}
	return tb.mk(&Term{Op: OpConst, W: w, Val: norm(vv, w)})
}

// Var returns the variable of that name (created on first use). W==0: Bool.
func (tb *Table) Var(name string, w int) *Term {
	if v, ok := tb.varIdx[name]; ok {
		if v.W != w {
			panic(fmt.Sprintf("variable %s redeclared with width %d (was %d)", name, w, v.W))
		}
		return v
	}
	v := tb.mk(&Term{Op: OpVar, W: w, Name: name})
	tb.varIdx[name] = v
	tb.Vars = append(tb.Vars, v)
	return v
}

func (tb *Table) HasVar(name string) bool { _, ok := tb.varIdx[name]; return ok }

func (tb *Table) bin(op Op, a, b *Term) *Term {
	if a.W != b.W {
		panic(fmt.Sprintf("width mismatch op %d: %d vs %d", op, a.W, b.W))
	}
	w := a.W
	if a.IsConst() && b.IsConst() {
		return tb.mk(&Term{Op: OpConst, W: w, Val: foldBin(op, w, a.Val, b.Val)})
	}
	// algebraic identities
	isZero := func(t *Term) bool { return t.IsConst() && t.Val.Sign() == 0 }
	isOnes := func(t *Term) bool { return t.IsConst() && t.Val.Cmp(mask(w)) == 0 }
	switch op {
	case OpAdd:
		if isZero(a) {
			return b
		}
		if isZero(b) {
			return a
		}
		if a.IsConst() { // canonical: const on the right
			a, b = b, a
		}
		// (x + c1) + c2
		if b.IsConst() && a.Op == OpAdd && a.Args[1].IsConst() {
			return tb.bin(OpAdd, a.Args[0], tb.bin(OpAdd, a.Args[1], b))
		}
	case OpSub:
		if isZero(b) {
			return a
		}
		if a == b {
			return tb.zero(w)
		}
		if b.IsConst() {
			return tb.bin(OpAdd, a, tb.Neg(b))
		}
	case OpMul:
		if isZero(a) || isZero(b) {
			return tb.zero(w)
		}
		if a.IsConst() && a.Val.Cmp(big.NewInt(1)) == 0 {
			return b
		}
		if b.IsConst() && b.Val.Cmp(big.NewInt(1)) == 0 {
			return a
		}
		if a.IsConst() {
			a, b = b, a
		}
		if b.IsConst() {
			if k := pow2Exp(b.Val); k > 0 {
				return tb.bin(OpShl, a, tb.Const(w, uint64(k)))
			}
		}
	case OpAnd:
		if isZero(a) || isZero(b) {
			return tb.zero(w)
		}
		if isOnes(a) {
			return b
		}
		if isOnes(b) {
			return a
		}
		if a == b {
			return a
		}
		if a.IsConst() {
			a, b = b, a
		}
		// x & lowmask -> zext(extract)
		if b.IsConst() {
			if k := lowMaskBits(b.Val); k > 0 && k < w {
				return tb.ZExt(tb.Extract(a, k-1, 0), w)
			}
		}
	case OpOr:
		if isZero(a) {
			return b
		}
		if isZero(b) {
			return a
		}
		if isOnes(a) || isOnes(b) {
			return tb.mk(&Term{Op: OpConst, W: w, Val: mask(w)})
		}
		if a == b {
			return a
		}
		if r := tb.orSegments(a, b); r != nil {
			return r
		}
		if a.IsConst() {
			a, b = b, a
		}
	case OpXor:
		if isZero(a) {
			return b
		}
		if isZero(b) {
			return a
		}
		if a == b {
			return tb.zero(w)
		}
		if a.IsConst() {
			a, b = b, a
		}
	case OpShl:
		if isZero(b) {
			return a
		}
		if isZero(a) {
			return a
		}
		if b.IsConst() {
			if b.Val.Cmp(big.NewInt(int64(w))) >= 0 {
				return tb.zero(w)
			}
			k := int(b.Val.Uint64())
			return tb.Concat(tb.Extract(a, w-1-k, 0), tb.zero(k))
		}
	case OpLShr:
		if isZero(b) || isZero(a) {
			return a
		}
		if b.IsConst() {
			if b.Val.Cmp(big.NewInt(int64(w))) >= 0 {
				return tb.zero(w)
			}
			k := int(b.Val.Uint64())
			return tb.Concat(tb.zero(k), tb.Extract(a, w-1, k))
		}
	case OpAShr:
		if isZero(b) || isZero(a) {
			return a
		}
	case OpUDiv, OpSDiv:
		if b.IsConst() && b.Val.Cmp(big.NewInt(1)) == 0 {
			return a
		}
		if op == OpUDiv && b.IsConst() {
			if k := pow2Exp(b.Val); k > 0 {
				return tb.bin(OpLShr, a, tb.Const(w, uint64(k)))
			}
		}
	case OpURem:
		if b.IsConst() {
			if k := pow2Exp(b.Val); k > 0 {
				return tb.ZExt(tb.Extract(a, k-1, 0), w)
			}
			if b.Val.Cmp(big.NewInt(1)) == 0 {
				return tb.zero(w)
			}
		}
	}
	return tb.mk(&Term{Op: op, W: w, Args: []*Term{a, b}})
}


// foldBin computes a binary BV operation on constants with SMT-LIB semantics.
func foldBin(op Op, w int, x, y *big.Int) *big.Int {
	r := new(big.Int)
	wrapS := func(v *big.Int) *big.Int {
		m := new(big.Int).Lsh(big.NewInt(1), uint(w))
		v = new(big.Int).Mod(v, m)
		return v
	}
	switch op {
	case OpAdd:
		r.Add(x, y)
	case OpSub:
		r.Sub(x, y)
		return wrapS(r)
	case OpMul:
		r.Mul(x, y)
	case OpUDiv:
		if y.Sign() == 0 {
			r.Set(mask(w))
		} else {
			r.Div(x, y)
		}
	case OpURem:
		if y.Sign() == 0 {
			r.Set(x)
		} else {
			r.Mod(x, y)
		}
	case OpSDiv:
		if y.Sign() == 0 {
			if x.Bit(w-1) == 0 {
				r.Set(mask(w))
			} else {
				r.SetInt64(1)
			}
		} else {
			r.Quo(toSigned(x, w), toSigned(y, w))
			return wrapS(r)
		}
	case OpSRem:
		if y.Sign() == 0 {
			r.Set(x)
		} else {
			r.Rem(toSigned(x, w), toSigned(y, w))
			return wrapS(r)
		}
	case OpAnd:
		r.And(x, y)
	case OpOr:
		r.Or(x, y)
	case OpXor:
		r.Xor(x, y)
	case OpShl:
		if y.Cmp(big.NewInt(int64(w))) >= 0 {
			r.SetInt64(0)
		} else {
			r.Lsh(x, uint(y.Uint64()))
		}
	case OpLShr:
		if y.Cmp(big.NewInt(int64(w))) >= 0 {
			r.SetInt64(0)
		} else {
			r.Rsh(x, uint(y.Uint64()))
		}
	case OpAShr:
		sx := toSigned(x, w)
		sh := uint(w)
		if y.Cmp(big.NewInt(int64(w))) < 0 {
			sh = uint(y.Uint64())
		}
		r.Rsh(sx, sh)
		return wrapS(r)
	default:
		panic("foldBin op")
	}
	return norm(r, w)
}

// pow2Exp returns k>0 if v == 2^k, else 0.
func pow2Exp(v *big.Int) int {
	if v.Sign() <= 0 || v.BitLen() < 2 {
		return 0
	}
	if new(big.Int).And(v, new(big.Int).Sub(v, big.NewInt(1))).Sign() != 0 {
		return 0
	}
	return v.BitLen() - 1
}

func lowMaskBits(v *big.Int) int {
	// returns k if v == 2^k-1 (k>0), else 0
	if v.Sign() == 0 {
		return 0
	}
	p := new(big.Int).Add(v, big.NewInt(1))
	if new(big.Int).And(p, v).Sign() != 0 {
		return 0
	}
	return p.BitLen() - 1
}

func (tb *Table) zero(w int) *Term { return tb.Const(w, 0) }

func (tb *Table) Add(a, b *Term) *Term  { return tb.bin(OpAdd, a, b) }
func (tb *Table) Sub(a, b *Term) *Term  { return tb.bin(OpSub, a, b) }
func (tb *Table) Mul(a, b *Term) *Term  { return tb.bin(OpMul, a, b) }
func (tb *Table) UDiv(a, b *Term) *Term { return tb.bin(OpUDiv, a, b) }
func (tb *Table) URem(a, b *Term) *Term { return tb.bin(OpURem, a, b) }
func (tb *Table) SDiv(a, b *Term) *Term { return tb.bin(OpSDiv, a, b) }
func (tb *Table) SRem(a, b *Term) *Term { return tb.bin(OpSRem, a, b) }
func (tb *Table) And(a, b *Term) *Term  { return tb.bin(OpAnd, a, b) }
func (tb *Table) Or(a, b *Term) *Term   { return tb.bin(OpOr, a, b) }
func (tb *Table) Xor(a, b *Term) *Term  { return tb.bin(OpXor, a, b) }
func (tb *Table) Shl(a, b *Term) *Term  { return tb.bin(OpShl, a, b) }
func (tb *Table) LShr(a, b *Term) *Term { return tb.bin(OpLShr, a, b) }
func (tb *Table) AShr(a, b *Term) *Term { return tb.bin(OpAShr, a, b) }

func (tb *Table) Neg(a *Term) *Term {
	if a.IsConst() {
		r := new(big.Int).Neg(a.Val)
		return tb.ConstBig(a.W, r)
	}
	return tb.mk(&Term{Op: OpNeg, W: a.W, Args: []*Term{a}})
}

// Not is bitwise on BV and logical on Bool.
func (tb *Table) Not(a *Term) *Term {
	if a.W == 0 {
		if a.IsConst() {
			return tb.Bool(a.Val.Sign() == 0)
		}
		if a.Op == OpNot {
			return a.Args[0]
		}
		return tb.mk(&Term{Op: OpNot, W: 0, Args: []*Term{a}})
	}
	if a.IsConst() {
		return tb.mk(&Term{Op: OpConst, W: a.W, Val: norm(new(big.Int).Xor(a.Val, mask(a.W)), a.W)})
	}
	if a.Op == OpNot {
		return a.Args[0]
	}
	return tb.mk(&Term{Op: OpNot, W: a.W, Args: []*Term{a}})
}

func (tb *Table) Extract(a *Term, hi, lo int) *Term {
	if hi < lo || lo < 0 || hi >= a.W {
		panic(fmt.Sprintf("bad extract [%d:%d] of width %d", hi, lo, a.W))
	}
	w := hi - lo + 1
	if w == a.W {
		return a
	}
	if a.IsConst() {
		r := new(big.Int).Rsh(a.Val, uint(lo))
		return tb.mk(&Term{Op: OpConst, W: w, Val: norm(r, w)})
	}
	switch a.Op {
	case OpExtract:
		return tb.Extract(a.Args[0], a.Lo+hi, a.Lo+lo)
	case OpConcat:
		// pick pieces
		pos := a.W
		var parts []*Term
		for _, p := range a.Args {
			phi := pos - 1
			plo := pos - p.W
			pos = plo
			// overlap of [hi,lo] with [phi,plo]
			h, l := hi, lo
			if h > phi {
				h = phi
			}
			if l < plo {
				l = plo
			}
			if h >= l {
				parts = append(parts, tb.Extract(p, h-plo, l-plo))
			}
		}
		return tb.Concat(parts...)
	case OpZExt:
		in := a.Args[0]
		if hi < in.W {
			return tb.Extract(in, hi, lo)
		}
		if lo >= in.W {
			return tb.zero(w)
		}
		return tb.Concat(tb.zero(hi-in.W+1), tb.Extract(in, in.W-1, lo))
	case OpSExt:
		in := a.Args[0]
		if hi < in.W {
			return tb.Extract(in, hi, lo)
		}
	case OpAnd, OpOr, OpXor:
		// push extract through bitwise ops when one side is const (helps masks)
		if a.Args[1].IsConst() || a.Args[0].IsConst() {
			return tb.bin(a.Op, tb.Extract(a.Args[0], hi, lo), tb.Extract(a.Args[1], hi, lo))
		}
	case OpNot:
		return tb.Not(tb.Extract(a.Args[0], hi, lo))
	case OpIte:
		if a.Args[1].IsConst() || a.Args[2].IsConst() {
			return tb.Ite(a.Args[0], tb.Extract(a.Args[1], hi, lo), tb.Extract(a.Args[2], hi, lo))
		}
	case OpAdd, OpSub, OpMul:
		// low bits of modular arithmetic depend only on low bits
		if lo == 0 {
			return tb.bin(a.Op, tb.Extract(a.Args[0], hi, 0), tb.Extract(a.Args[1], hi, 0))
		}
	}
	return tb.mk(&Term{Op: OpExtract, W: w, Args: []*Term{a}, Hi: hi, Lo: lo})
}

// Concat: args from most significant to least significant.
func (tb *Table) Concat(parts ...*Term) *Term {
	var flat []*Term
	for _, p := range parts {
		if p == nil {
			continue
		}
		if p.Op == OpConcat {
			flat = append(flat, p.Args...)
		} else {
			flat = append(flat, p)
		}
	}
	// merge adjacent
	var out []*Term
	for _, p := range flat {
		if len(out) > 0 {
			q := out[len(out)-1]
			if q.IsConst() && p.IsConst() {
				v := new(big.Int).Lsh(q.Val, uint(p.W))
				v.Or(v, p.Val)
				out[len(out)-1] = tb.mk(&Term{Op: OpConst, W: q.W + p.W, Val: v})
				continue
			}
			if q.Op == OpExtract && p.Op == OpExtract && q.Args[0] == p.Args[0] && q.Lo == p.Hi+1 {
				out[len(out)-1] = tb.Extract(q.Args[0], q.Hi, p.Lo)
				continue
			}
		}
		out = append(out, p)
	}
	if len(out) == 0 {
		panic("empty concat")
	}
	if len(out) == 1 {
		return out[0]
	}
	w := 0
	for _, p := range out {
		if p.W == 0 {
			panic("bool in concat")
		}
		w += p.W
	}
	return tb.mk(&Term{Op: OpConcat, W: w, Args: out})
}

func (tb *Table) ZExt(a *Term, w int) *Term {
	if w == a.W {
		return a
	}
	if w < a.W {
		panic("zext narrowing")
	}
	return tb.Concat(tb.zero(w-a.W), a)
}

func (tb *Table) SExt(a *Term, w int) *Term {
	if w == a.W {
		return a
	}
	if w < a.W {
		panic("sext narrowing")
	}
	if a.IsConst() {
		return tb.ConstBig(w, toSigned(a.Val, a.W))
	}
	// sext of something with a known-zero top bit is zext
	if a.Op == OpConcat && a.Args[0].IsConst() && a.Args[0].Val.Sign() == 0 {
		return tb.ZExt(a, w)
	}
	return tb.mk(&Term{Op: OpSExt, W: w, Args: []*Term{a}})
}

func (tb *Table) Ite(c, a, b *Term) *Term {
	if c.W != 0 {
		panic("ite cond not bool")
	}
	if a.W != b.W {
		panic(fmt.Sprintf("ite width mismatch %d vs %d", a.W, b.W))
	}
	if c.IsConst() {
		if c.IsTrue() {
			return a
		}
		return b
	}
	if a == b {
		return a
	}
	if a.W == 0 {
		if a.IsTrue() && b.IsFalse() {
			return c
		}
		if a.IsFalse() && b.IsTrue() {
			return tb.Not(c)
		}
		if a.IsTrue() {
			return tb.BOr(c, b)
		}
		if a.IsFalse() {
			return tb.BAnd(tb.Not(c), b)
		}
		if b.IsFalse() {
			return tb.BAnd(c, a)
		}
		if b.IsTrue() {
			return tb.BOr(tb.Not(c), a)
		}
	}
	if c.Op == OpNot {
		return tb.Ite(c.Args[0], b, a)
	}
	// ite(c, x, ite(c, y, z)) -> ite(c,x,z)
	if b.Op == OpIte && b.Args[0] == c {
		return tb.Ite(c, a, b.Args[2])
	}
	if a.Op == OpIte && a.Args[0] == c {
		return tb.Ite(c, a.Args[1], b)
	}
	return tb.mk(&Term{Op: OpIte, W: a.W, Args: []*Term{c, a, b}})
}

func (tb *Table) Eq(a, b *Term) *Term {
	if a.W != b.W {
		panic(fmt.Sprintf("eq width mismatch %d vs %d", a.W, b.W))
	}
	if a == b {
		return tb.True
	}
	if a.IsConst() && b.IsConst() {
		return tb.Bool(a.Val.Cmp(b.Val) == 0)
	}
	if a.W == 0 {
		if a.IsConst() {
			a, b = b, a
		}
		if b.IsTrue() {
			return a
		}
		if b.IsFalse() {
			return tb.Not(a)
		}
	}
	if a.IsConst() {
		a, b = b, a
	}
	// eq(ite(c, k1, k2), k) with constants
	if b.IsConst() && a.Op == OpIte && a.Args[1].IsConst() && a.Args[2].IsConst() {
		return tb.Ite(a.Args[0], tb.Eq(a.Args[1], b), tb.Eq(a.Args[2], b))
	}
	// eq(concat(0.., x), const): split
	if b.IsConst() && a.Op == OpConcat {
		pos := a.W
		res := tb.True
		for _, p := range a.Args {
			lo := pos - p.W
			res = tb.BAnd(res, tb.Eq(p, tb.Extract(b, pos-1, lo)))
			pos = lo
			if res.IsFalse() {
				return res
			}
		}
		return res
	}
	if a.ID > b.ID && !b.IsConst() {
		a, b = b, a
	}
	return tb.mk(&Term{Op: OpEq, W: 0, Args: []*Term{a, b}})
}

func (tb *Table) cmp(op Op, a, b *Term) *Term {
	if a.W != b.W {
		panic(fmt.Sprintf("cmp width mismatch %d vs %d", a.W, b.W))
	}
	if a.IsConst() && b.IsConst() {
		var c int
		if op == OpULt || op == OpULe {
			c = a.Val.Cmp(b.Val)
		} else {
			c = toSigned(a.Val, a.W).Cmp(toSigned(b.Val, b.W))
		}
		if op == OpULt || op == OpSLt {
			return tb.Bool(c < 0)
		}
		return tb.Bool(c <= 0)
	}
	if a == b {
		return tb.Bool(op == OpULe || op == OpSLe)
	}
	w := a.W
	switch op {
	case OpULt:
		if b.IsConst() && b.Val.Sign() == 0 {
			return tb.False
		}
		if a.IsConst() && a.Val.Cmp(mask(w)) == 0 {
			return tb.False
		}
	case OpULe:
		if a.IsConst() && a.Val.Sign() == 0 {
			return tb.True
		}
		if b.IsConst() && b.Val.Cmp(mask(w)) == 0 {
			return tb.True
		}
	}
	// cheap unsigned range analysis
	if op == OpULt || op == OpULe {
		amin, amax := tb.URange(a)
		bmin, bmax := tb.URange(b)
		if op == OpULt {
			if amax.Cmp(bmin) < 0 {
				return tb.True
			}
			if amin.Cmp(bmax) >= 0 {
				return tb.False
			}
		} else {
			if amax.Cmp(bmin) <= 0 {
				return tb.True
			}
			if amin.Cmp(bmax) > 0 {
				return tb.False
			}
		}
	} else {
		// signed compare of two values with known-clear sign bit == unsigned compare
		_, amax := tb.URange(a)
		_, bmax := tb.URange(b)
		half := new(big.Int).Lsh(big.NewInt(1), uint(w-1))
		if amax.Cmp(half) < 0 && bmax.Cmp(half) < 0 {
			if op == OpSLt {
				return tb.cmp(OpULt, a, b)
			}
			return tb.cmp(OpULe, a, b)
		}
	}
	return tb.mk(&Term{Op: op, W: 0, Args: []*Term{a, b}})
}

// URange returns a sound unsigned interval [min,max] for a BV term (cheap, depth-limited).
func (tb *Table) URange(t *Term) (*big.Int, *big.Int) {
	return tb.urange(t, 6)
}

func (tb *Table) urange(t *Term, depth int) (*big.Int, *big.Int) {
	if t.IsConst() {
		return t.Val, t.Val
	}
	full := func() (*big.Int, *big.Int) { return big.NewInt(0), mask(t.W) }
	if depth == 0 {
		return full()
	}
	switch t.Op {
	case OpConcat:
		// leading zero constant
		mn := big.NewInt(0)
		mx := big.NewInt(0)
		for _, p := range t.Args {
			pmn, pmx := tb.urange(p, depth-1)
			mn = new(big.Int).Lsh(mn, uint(p.W))
			mn.Or(mn, pmn)
			mx = new(big.Int).Lsh(mx, uint(p.W))
			mx.Or(mx, pmx)
			_ = pmn
		}
		// min of concatenation: each piece min is sound only if pieces independent: min concat = concat of mins (sound lower bound), same for max
		return mn, mx
	case OpIte:
		amn, amx := tb.urange(t.Args[1], depth-1)
		bmn, bmx := tb.urange(t.Args[2], depth-1)
		mn, mx := amn, amx
		if bmn.Cmp(mn) < 0 {
			mn = bmn
		}
		if bmx.Cmp(mx) > 0 {
			mx = bmx
		}
		return mn, mx
	case OpAdd:
		amn, amx := tb.urange(t.Args[0], depth-1)
		bmn, bmx := tb.urange(t.Args[1], depth-1)
		mx := new(big.Int).Add(amx, bmx)
		if mx.Cmp(mask(t.W)) <= 0 {
			return new(big.Int).Add(amn, bmn), mx
		}
	case OpAnd:
		_, amx := tb.urange(t.Args[0], depth-1)
		_, bmx := tb.urange(t.Args[1], depth-1)
		if bmx.Cmp(amx) < 0 {
			amx = bmx
		}
		return big.NewInt(0), amx
	case OpURem:
		_, bmx := tb.urange(t.Args[1], depth-1)
		if bmx.Sign() > 0 {
			_, amx := tb.urange(t.Args[0], depth-1)
			r := new(big.Int).Sub(bmx, big.NewInt(1))
			if amx.Cmp(r) < 0 {
				r = amx
			}
			return big.NewInt(0), r
		}
	case OpUDiv:
		bmn, _ := tb.urange(t.Args[1], depth-1)
		if bmn.Sign() > 0 {
			_, amx := tb.urange(t.Args[0], depth-1)
			return big.NewInt(0), new(big.Int).Div(amx, bmn)
		}
	case OpMul:
		_, amx := tb.urange(t.Args[0], depth-1)
		_, bmx := tb.urange(t.Args[1], depth-1)
		mx := new(big.Int).Mul(amx, bmx)
		if mx.Cmp(mask(t.W)) <= 0 {
			return big.NewInt(0), mx
		}
	case OpLShr:
		_, amx := tb.urange(t.Args[0], depth-1)
		return big.NewInt(0), amx
	}
	return full()
}

func (tb *Table) ULt(a, b *Term) *Term { return tb.cmp(OpULt, a, b) }
func (tb *Table) ULe(a, b *Term) *Term { return tb.cmp(OpULe, a, b) }
func (tb *Table) SLt(a, b *Term) *Term { return tb.cmp(OpSLt, a, b) }
func (tb *Table) SLe(a, b *Term) *Term { return tb.cmp(OpSLe, a, b) }

func (tb *Table) BAnd(xs ...*Term) *Term {
	var out []*Term
	seen := map[int]bool{}
	for _, x := range xs {
		if x.W != 0 {
			panic("BAnd of non-bool")
		}
		if x.IsFalse() {
			return tb.False
		}
		if x.IsTrue() {
			continue
		}
		sub := []*Term{x}
		if x.Op == OpBAnd {
			sub = x.Args
		}
		for _, y := range sub {
			if !seen[y.ID] {
				seen[y.ID] = true
				out = append(out, y)
			}
		}
	}
	for _, y := range out {
		if y.Op == OpNot && seen[y.Args[0].ID] {
			return tb.False
		}
	}
	if len(out) == 0 {
		return tb.True
	}
	if len(out) == 1 {
		return out[0]
	}
	return tb.mk(&Term{Op: OpBAnd, W: 0, Args: out})
}

func (tb *Table) BOr(xs ...*Term) *Term {
	var out []*Term
	seen := map[int]bool{}
	for _, x := range xs {
		if x.W != 0 {
			panic("BOr of non-bool")
		}
		if x.IsTrue() {
			return tb.True
		}
		if x.IsFalse() {
			continue
		}
		sub := []*Term{x}
		if x.Op == OpBOr {
			sub = x.Args
		}
		for _, y := range sub {
			if !seen[y.ID] {
				seen[y.ID] = true
				out = append(out, y)
			}
		}
	}
	for _, y := range out {
		if y.Op == OpNot && seen[y.Args[0].ID] {
			return tb.True
		}
	}
	if len(out) == 0 {
		return tb.False
	}
	if len(out) == 1 {
		return out[0]
	}
	return tb.mk(&Term{Op: OpBOr, W: 0, Args: out})
}

func (tb *Table) Implies(a, b *Term) *Term { return tb.BOr(tb.Not(a), b) }

// UF application. All args must be BV terms.
func (tb *Table) UF(name string, retW int, args ...*Term) *Term {
	sig := make([]int, 0, len(args)+1)
	for _, a := range args {
		sig = append(sig, a.W)
	}
	sig = append(sig, retW)
	if old, ok := tb.UFs[name]; ok {
		if fmt.Sprint(old) != fmt.Sprint(sig) {
			panic(fmt.Sprintf("UF %s used with two signatures %v / %v", name, old, sig))
		}
	} else {
		tb.UFs[name] = sig
	}
	return tb.mk(&Term{Op: OpUF, W: retW, Name: name, Args: append([]*Term{}, args...)})
}

// orSegments merges a|b when at every bit at most one of them can be non-zero
// on a segment basis (byte reassembly patterns). Returns nil when not applicable.
func (tb *Table) orSegments(a, b *Term) *Term {
	sa, sb := segs(a), segs(b)
	if len(sa) == 1 && len(sb) == 1 {
		return nil
	}
	// collect boundaries
	w := a.W
	cut := map[int]bool{0: true, w: true}
	pos := w
	for _, s := range sa {
		pos -= s.W
		cut[pos] = true
	}
	pos = w
	for _, s := range sb {
		pos -= s.W
		cut[pos] = true
	}
	var bounds []int
	for i := w; i >= 0; i-- {
		if cut[i] {
			bounds = append(bounds, i)
		}
	}
	var parts []*Term
	for i := 0; i+1 < len(bounds); i++ {
		hi, lo := bounds[i]-1, bounds[i+1]
		pa, pb := tb.Extract(a, hi, lo), tb.Extract(b, hi, lo)
		switch {
		case pa.IsConst() && pa.Val.Sign() == 0:
			parts = append(parts, pb)
		case pb.IsConst() && pb.Val.Sign() == 0:
			parts = append(parts, pa)
		case pa.IsConst() && pb.IsConst():
			parts = append(parts, tb.bin(OpOr, pa, pb))
		default:
			return nil
		}
	}
	return tb.Concat(parts...)
}

func segs(t *Term) []*Term {
	if t.Op == OpConcat {
		return t.Args
	}
	return []*Term{t}
}

// ---------------------------------------------------------------- evaluation

// Model maps variable names to values and UF applications (by term ID) to values.
type Model struct {
	Vars map[string]*big.Int
	Apps map[int]*big.Int
}

// Eval evaluates t under m. ok=false if a needed UF application is not in the model.
func (tb *Table) Eval(t *Term, m *Model, memo map[int]*big.Int) (*big.Int, bool) {
	if v, ok := memo[t.ID]; ok {
		return v, v != nil
	}
	r, ok := tb.eval1(t, m, memo)
	if !ok {
		memo[t.ID] = nil
		return nil, false
	}
	memo[t.ID] = r
	return r, true
}

func (tb *Table) eval1(t *Term, m *Model, memo map[int]*big.Int) (*big.Int, bool) {
	switch t.Op {
	case OpConst:
		return t.Val, true
	case OpVar:
		if v, ok := m.Vars[t.Name]; ok {
			return v, true
		}
		return big.NewInt(0), true
	case OpUF:
		if v, ok := m.Apps[t.ID]; ok {
			return v, true
		}
		return nil, false
	}
	args := make([]*big.Int, len(t.Args))
	if t.Op == OpIte {
		c, ok := tb.Eval(t.Args[0], m, memo)
		if !ok {
			return nil, false
		}
		if c.Sign() != 0 {
			return tb.Eval(t.Args[1], m, memo)
		}
		return tb.Eval(t.Args[2], m, memo)
	}
	for i, a := range t.Args {
		v, ok := tb.Eval(a, m, memo)
		if !ok {
			return nil, false
		}
		args[i] = v
	}
	b2i := func(b bool) *big.Int {
		if b {
			return big.NewInt(1)
		}
		return big.NewInt(0)
	}
	switch t.Op {
	case OpAdd, OpSub, OpMul, OpUDiv, OpURem, OpSDiv, OpSRem, OpAnd, OpOr, OpXor, OpShl, OpLShr, OpAShr:
		return foldBin(t.Op, t.W, args[0], args[1]), true
	case OpNot:
		if t.W == 0 {
			return b2i(args[0].Sign() == 0), true
		}
		return norm(new(big.Int).Xor(args[0], mask(t.W)), t.W), true
	case OpNeg:
		r := new(big.Int).Neg(args[0])
		r.Mod(r, new(big.Int).Lsh(big.NewInt(1), uint(t.W)))
		return r, true
	case OpConcat:
		r := big.NewInt(0)
		for i, a := range t.Args {
			r = new(big.Int).Lsh(r, uint(a.W))
			r.Or(r, args[i])
		}
		return r, true
	case OpExtract:
		r := new(big.Int).Rsh(args[0], uint(t.Lo))
		return norm(r, t.W), true
	case OpZExt:
		return args[0], true
	case OpSExt:
		s := toSigned(args[0], t.Args[0].W)
		if s.Sign() < 0 {
			s.Add(s, new(big.Int).Lsh(big.NewInt(1), uint(t.W)))
		}
		return s, true
	case OpEq:
		return b2i(args[0].Cmp(args[1]) == 0), true
	case OpULt:
		return b2i(args[0].Cmp(args[1]) < 0), true
	case OpULe:
		return b2i(args[0].Cmp(args[1]) <= 0), true
	case OpSLt:
		w := t.Args[0].W
		return b2i(toSigned(args[0], w).Cmp(toSigned(args[1], w)) < 0), true
	case OpSLe:
		w := t.Args[0].W
		return b2i(toSigned(args[0], w).Cmp(toSigned(args[1], w)) <= 0), true
	case OpBAnd:
		for _, a := range args {
			if a.Sign() == 0 {
				return big.NewInt(0), true
			}
		}
		return big.NewInt(1), true
	case OpBOr:
		for _, a := range args {
			if a.Sign() != 0 {
				return big.NewInt(1), true
			}
		}
		return big.NewInt(0), true
	}
	panic(fmt.Sprintf("eval: op %d", t.Op))
}

// ---------------------------------------------------------------- printing

func sortOf(w int) string {
	if w == 0 {
		return "Bool"
	}
	return fmt.Sprintf("(_ BitVec %d)", w)
}

func smtName(s string) string {
	var sb strings.Builder
	sb.WriteByte('|')
	for _, r := range s {
		if r == '|' || r == '\\' {
			sb.WriteByte('_')
		} else {
			sb.WriteRune(r)
		}
	}
	sb.WriteByte('|')
	return sb.String()
}

// Ref is how a term is referred to once defined in the solver.
func (t *Term) Ref() string {
	switch t.Op {
	case OpConst:
		if t.W == 0 {
			if t.Val.Sign() != 0 {
				return "true"
			}
			return "false"
		}
		if t.W%4 == 0 {
			s := t.Val.Text(16)
			return "#x" + strings.Repeat("0", t.W/4-len(s)) + s
		}
		s := t.Val.Text(2)
		return "#b" + strings.Repeat("0", t.W-len(s)) + s
	case OpVar:
		return smtName("v:" + t.Name)
	}
	return fmt.Sprintf("t%d", t.ID)
}

// Def returns the SMT-LIB definition body of a non-leaf term, referring to args by Ref.
func (t *Term) Def() string {
	var sb strings.Builder
	switch t.Op {
	case OpNot:
		if t.W == 0 {
			sb.WriteString("(not ")
		} else {
			sb.WriteString("(bvnot ")
		}
		sb.WriteString(t.Args[0].Ref())
		sb.WriteByte(')')
	case OpNeg:
		sb.WriteString("(bvneg " + t.Args[0].Ref() + ")")
	case OpExtract:
		fmt.Fprintf(&sb, "((_ extract %d %d) %s)", t.Hi, t.Lo, t.Args[0].Ref())
	case OpZExt:
		fmt.Fprintf(&sb, "((_ zero_extend %d) %s)", t.W-t.Args[0].W, t.Args[0].Ref())
	case OpSExt:
		fmt.Fprintf(&sb, "((_ sign_extend %d) %s)", t.W-t.Args[0].W, t.Args[0].Ref())
	case OpUF:
		if len(t.Args) == 0 {
			sb.WriteString(smtName("uf!" + t.Name))
		} else {
			sb.WriteString("(" + smtName("uf!"+t.Name))
			for _, a := range t.Args {
				sb.WriteByte(' ')
				sb.WriteString(a.Ref())
			}
			sb.WriteByte(')')
		}
	default:
		name, ok := opNames[t.Op]
		if !ok {
			panic(fmt.Sprintf("Def: op %d", t.Op))
		}
		sb.WriteString("(" + name)
		for _, a := range t.Args {
			sb.WriteByte(' ')
			sb.WriteString(a.Ref())
		}
		sb.WriteByte(')')
	}
	return sb.String()
}

func (t *Term) Sort() string { return sortOf(t.W) }

// String renders a (possibly large) term as an S-expression tree, truncated.
func (t *Term) String() string {
	var sb strings.Builder
	t.str(&sb, 0)
	return sb.String()
}

func (t *Term) str(sb *strings.Builder, depth int) {
	if sb.Len() > 400 {
		sb.WriteString("…")
		return
	}
	switch t.Op {
	case OpConst, OpVar:
		sb.WriteString(t.Ref())
		return
	}
	if depth > 8 {
		sb.WriteString(t.Ref())
		return
	}
	switch t.Op {
	case OpExtract:
		fmt.Fprintf(sb, "(extract[%d:%d] ", t.Hi, t.Lo)
	case OpUF:
		sb.WriteString("(" + t.Name)
		if len(t.Args) > 0 {
			sb.WriteByte(' ')
		}
	case OpNot:
		sb.WriteString("(not ")
	case OpNeg:
		sb.WriteString("(neg ")
	case OpZExt:
		sb.WriteString("(zext ")
	case OpSExt:
		sb.WriteString("(sext ")
	default:
		sb.WriteString("(" + opNames[t.Op] + " ")
	}
	for i, a := range t.Args {
		if i > 0 {
			sb.WriteByte(' ')
		}
		a.str(sb, depth+1)
	}
	sb.WriteByte(')')
}

// Subst rebuilds t with the variables in m (by term ID) replaced, re-simplifying on the way.
func (tb *Table) Subst(t *Term, m map[int]*Term, memo map[int]*Term) *Term {
	if r, ok := memo[t.ID]; ok {
		return r
	}
	var r *Term
	switch t.Op {
	case OpConst:
		r = t
	case OpVar:
		if x, ok := m[t.ID]; ok {
			r = x
		} else {
			r = t
		}
	default:
		args := make([]*Term, len(t.Args))
		changed := false
		for i, a := range t.Args {
			args[i] = tb.Subst(a, m, memo)
			if args[i] != a {
				changed = true
			}
		}
		if !changed {
			r = t
			break
		}
		switch t.Op {
		case OpAdd, OpSub, OpMul, OpUDiv, OpURem, OpSDiv, OpSRem, OpAnd, OpOr, OpXor, OpShl, OpLShr, OpAShr:
			r = tb.bin(t.Op, args[0], args[1])
		case OpNot:
			r = tb.Not(args[0])
		case OpNeg:
			r = tb.Neg(args[0])
		case OpConcat:
			r = tb.Concat(args...)
		case OpExtract:
			r = tb.Extract(args[0], t.Hi, t.Lo)
		case OpZExt:
			r = tb.ZExt(args[0], t.W)
		case OpSExt:
			r = tb.SExt(args[0], t.W)
		case OpIte:
			r = tb.Ite(args[0], args[1], args[2])
		case OpEq:
			r = tb.Eq(args[0], args[1])
		case OpULt, OpULe, OpSLt, OpSLe:
			r = tb.cmp(t.Op, args[0], args[1])
		case OpBAnd:
			r = tb.BAnd(args...)
		case OpBOr:
			r = tb.BOr(args...)
		case OpUF:
			r = tb.mk(&Term{Op: OpUF, W: t.W, Name: t.Name, Args: args})
		default:
			panic("Subst: op")
		}
	}
	memo[t.ID] = r
	return r
}
