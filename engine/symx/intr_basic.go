package symx

import (
	"fmt"
	"go/types"
	"strings"
	"unicode/utf8"

	"golang.org/x/tools/go/ssa"
	"verif/engine/sym"
)

var intrinsics = map[string]intrinsic{}

type opaqueErr struct{ msg Str }

func isOpaqueErr(v Iface) bool { _, ok := v.V.(*opaqueErr); return ok }

// errorValue builds a non-nil error whose dynamic type is *errors.errorString.
func (e *Exec) errorValue(msg Str) Value {
	pkg := e.prog.ImportedPackage("errors")
	if pkg == nil {
		panic(unsupported("package errors not loaded"))
	}
	named := pkg.Type("errorString").Type()
	o := e.allocType(named, "error")
	o.Cells[0] = msg
	return Iface{T: types.NewPointer(named), V: Ptr{Obj: o}}
}

func (e *Exec) hexDigit(n *sym.Term, upper bool) *sym.Term {
	// n: 4-bit term -> ascii
	tb := e.tb
	n8 := tb.ZExt(n, 8)
	a := byte('a')
	if upper {
		a = 'A'
	}
	return tb.Ite(tb.ULt(n8, tb.Const(8, 10)), tb.Add(n8, tb.Const(8, '0')), tb.Add(n8, tb.Const(8, uint64(a-10))))
}

func (e *Exec) hexEncode(b []*sym.Term, upper bool) []*sym.Term {
	out := make([]*sym.Term, 0, 2*len(b))
	for _, x := range b {
		out = append(out, e.hexDigit(e.tb.Extract(x, 7, 4), upper), e.hexDigit(e.tb.Extract(x, 3, 0), upper))
	}
	return out
}

// hexVal returns (value 4-bit zext to 8, valid) for an ascii hex digit.
func (e *Exec) hexVal(c *sym.Term) (*sym.Term, *sym.Term) {
	tb := e.tb
	k := func(v byte) *sym.Term { return tb.Const(8, uint64(v)) }
	isD := tb.BAnd(tb.ULe(k('0'), c), tb.ULe(c, k('9')))
	isL := tb.BAnd(tb.ULe(k('a'), c), tb.ULe(c, k('f')))
	isU := tb.BAnd(tb.ULe(k('A'), c), tb.ULe(c, k('F')))
	v := tb.Ite(isD, tb.Sub(c, k('0')), tb.Ite(isL, tb.Sub(c, k('a'-10)), tb.Sub(c, k('A'-10))))
	return v, tb.BOr(isD, isL, isU)
}

func (e *Exec) toUpperByte(c *sym.Term) *sym.Term {
	tb := e.tb
	isL := tb.BAnd(tb.ULe(tb.Const(8, 'a'), c), tb.ULe(c, tb.Const(8, 'z')))
	return tb.Ite(isL, tb.Sub(c, tb.Const(8, 32)), c)
}

func (e *Exec) toLowerByte(c *sym.Term) *sym.Term {
	tb := e.tb
	isU := tb.BAnd(tb.ULe(tb.Const(8, 'A'), c), tb.ULe(c, tb.Const(8, 'Z')))
	return tb.Ite(isU, tb.Add(c, tb.Const(8, 32)), c)
}

// requireASCII restricts the claim: case mapping is modelled for 7-bit input only.
func (e *Exec) requireASCII(s Str, what string) {
	var conds []*sym.Term
	for _, c := range s.B {
		if c.IsConst() {
			if c.Uint64() >= 0x80 {
				panic(unsupported(what + " on concrete non-ASCII string"))
			}
			continue
		}
		ok := e.tb.ULt(c, e.tb.Const(8, 0x80))
		if !e.pcSet[ok.ID] {
			conds = append(conds, ok)
		}
	}
	if len(conds) == 0 {
		return
	}
	all := e.tb.BAnd(conds...)
	r, _ := e.check(e.tb.Not(all))
	if r != sym.Unsat {
		e.rep.Stubs["ASSUMED 7-bit ASCII input at "+what+" (case mapping / space trimming is modelled for ASCII only; non-ASCII text is outside the claim)"]++
		e.assume(all)
	}
	for _, c := range conds {
		e.addPC(c)
	}
}

func boolTerm(e *Exec, b bool) *sym.Term { return e.tb.Bool(b) }

// formatDecimal renders an integer term in base 10, forking on the digit count.
func (e *Exec) formatDecimal(t *sym.Term, signed bool) []*sym.Term {
	out := e.formatDecimal1(t, signed)
	if !t.IsConst() && len(out) > 0 {
		if e.decOrigin == nil {
			e.decOrigin = map[**sym.Term]decInfo{}
		}
		e.decOrigin[&out[0]] = decInfo{n: len(out), val: t, signed: signed}
	}
	return out
}

type decInfo struct {
	n      int
	val    *sym.Term
	signed bool
}

// decimalOrigin returns the integer a string was rendered from by the %d model (whole string only).
func (e *Exec) decimalOrigin(s []*sym.Term) (decInfo, bool) {
	if len(s) == 0 || e.decOrigin == nil {
		return decInfo{}, false
	}
	d, ok := e.decOrigin[&s[0]]
	if ok && d.n == len(s) {
		return d, true
	}
	return decInfo{}, false
}

func (e *Exec) formatDecimal1(t *sym.Term, signed bool) []*sym.Term {
	tb := e.tb
	if t.IsConst() {
		var s string
		if signed {
			s = fmt.Sprintf("%d", t.Int64())
		} else {
			s = fmt.Sprintf("%d", t.Uint64())
		}
		return e.strConst(s).B
	}
	w := t.W
	var out []*sym.Term
	if signed {
		if e.branch(tb.SLt(t, tb.Const(w, 0))) {
			out = append(out, e.byteConst('-'))
			t = tb.Neg(t) // MinInt stays itself; as unsigned it is 2^(w-1): correct magnitude
		}
	}
	// digit count
	pow := uint64(10)
	nd := 1
	maxDigits := len(fmt.Sprintf("%d", ^uint64(0)>>(64-uint(w))))
	for nd < maxDigits {
		if e.branch(tb.ULt(t, tb.Const(w, pow))) {
			break
		}
		nd++
		if nd < maxDigits {
			pow *= 10
		}
	}
	digits := make([]*sym.Term, nd)
	p := uint64(1)
	for i := nd - 1; i >= 0; i-- {
		d := tb.URem(tb.UDiv(t, tb.Const(w, p)), tb.Const(w, 10))
		digits[i] = tb.Add(tb.Extract(d, 7, 0), tb.Const(8, '0'))
		if i > 0 {
			p *= 10
		}
	}
	return append(out, digits...)
}

// formatHexInt renders an integer term in hex (no forking when minWidth covers the full width).
func (e *Exec) formatHexInt(t *sym.Term, minWidth int, zeroPad, upper bool) []*sym.Term {
	if t.IsConst() {
		f := "%"
		if zeroPad {
			f += "0"
		}
		if minWidth > 0 {
			f += fmt.Sprint(minWidth)
		}
		if upper {
			f += "X"
		} else {
			f += "x"
		}
		return e.strConst(fmt.Sprintf(f, t.Uint64())).B
	}
	w := t.W
	if w%4 != 0 {
		t = e.tb.ZExt(t, (w+3)/4*4)
		w = t.W
	}
	n := w / 4
	nibs := make([]*sym.Term, n)
	for i := 0; i < n; i++ {
		nibs[i] = e.hexDigit(e.tb.Extract(t, w-1-4*i, w-4-4*i), upper)
	}
	// number of significant nibbles
	sig := n
	for sig > 1 && sig > minWidth {
		top := e.tb.Extract(t, w-1-4*(n-sig), w-4-4*(n-sig))
		if e.branch(e.tb.Eq(top, e.tb.Const(4, 0))) {
			sig--
		} else {
			break
		}
	}
	out := nibs[n-sig:]
	if !zeroPad && minWidth > sig {
		pad := make([]*sym.Term, minWidth-sig)
		for i := range pad {
			pad[i] = e.byteConst(' ')
		}
		out = append(pad, out...)
	} else if zeroPad && minWidth > len(out) {
		pad := make([]*sym.Term, minWidth-len(out))
		for i := range pad {
			pad[i] = e.byteConst('0')
		}
		out = append(pad, out...)
	}
	return out
}

// sprintf models fmt.Sprintf for the verbs the library uses.
func (e *Exec) sprintf(format string, args []Value, argTypes []types.Type, lossy bool) Str {
	var out []*sym.Term
	var soleDec *decInfo
	type decPiece struct {
		off  int
		info decInfo
	}
	var decPieces []decPiece
	ai := 0
	for i := 0; i < len(format); i++ {
		c := format[i]
		if c != '%' {
			out = append(out, e.byteConst(c))
			soleDec = nil
			continue
		}
		i++
		if i >= len(format) {
			out = append(out, e.strConst("%!(NOVERB)").B...)
			break
		}
		if format[i] == '%' {
			out = append(out, e.byteConst('%'))
			continue
		}
		zero, minus, plus, sharp := false, false, false, false
		for ; i < len(format); i++ {
			switch format[i] {
			case '0':
				zero = true
				continue
			case '-':
				minus = true
				continue
			case '+':
				plus = true
				continue
			case '#':
				sharp = true
				continue
			case ' ':
				continue
			}
			break
		}
		width := 0
		for i < len(format) && format[i] >= '0' && format[i] <= '9' {
			width = width*10 + int(format[i]-'0')
			i++
		}
		prec := -1
		if i < len(format) && format[i] == '.' {
			i++
			prec = 0
			for i < len(format) && format[i] >= '0' && format[i] <= '9' {
				prec = prec*10 + int(format[i]-'0')
				i++
			}
		}
		_ = prec
		_ = plus
		verb := format[i]
		if ai >= len(args) {
			out = append(out, e.strConst("%!"+string(verb)+"(MISSING)").B...)
			continue
		}
		arg := args[ai]
		ai++
		piece := e.formatArg(verb, arg, width, zero, sharp, lossy)
		shown := len(piece) // fmt pads to a width counted in runes, not bytes
		if width > 0 && (verb == 's' || verb == 'v' || verb == 'q') {
			shown = e.runeCount(piece)
		}
		if width > shown && !(verb == 'x' || verb == 'X') {
			pad := make([]*sym.Term, width-shown)
			padc := byte(' ')
			if zero && !minus {
				padc = '0'
			}
			for k := range pad {
				pad[k] = e.byteConst(padc)
			}
			if minus {
				piece = append(piece, pad...)
			} else {
				piece = append(pad, piece...)
			}
		}
		if d, ok := e.decimalOrigin(piece); ok {
			decPieces = append(decPieces, decPiece{len(out), d})
		}
		out = append(out, piece...)
	}
	for _, dp := range decPieces {
		e.decOrigin[&out[dp.off]] = dp.info
	}
	_ = soleDec
	return Str{out}
}

func (e *Exec) formatArg(verb byte, arg Value, width int, zero, sharp, lossy bool) []*sym.Term {
	ifc, isIface := arg.(Iface)
	var v Value = arg
	var t types.Type
	if isIface {
		if ifc.T == nil {
			return e.strConst("<nil>").B
		}
		v, t = ifc.V, ifc.T
	}
	placeholder := func(why string) []*sym.Term {
		if lossy {
			return e.strConst("?").B
		}
		panic(unsupported("Sprintf: " + why))
	}
	// error / Stringer values
	if t != nil && (verb == 'v' || verb == 's' || verb == 'w' || verb == 'q') {
		if _, basic := t.Underlying().(*types.Basic); !basic || true {
			if m := e.findMethod(t, "Error"); m != nil && isErrorSig(m) {
				r := e.callFunction(m, []Value{v}, nil)
				return r.(Str).B
			}
			if m := e.findMethod(t, "String"); m != nil && isStringerSig(m) {
				if lossy {
					// avoid executing arbitrary String methods for error text
					return e.strConst("?").B
				}
				r := e.callFunction(m, []Value{v}, nil)
				return r.(Str).B
			}
		}
	}
	switch x := v.(type) {
	case *sym.Term:
		signed := t != nil && isSigned(t)
		if x.W == 0 {
			if x.IsConst() {
				if x.IsTrue() {
					return e.strConst("true").B
				}
				return e.strConst("false").B
			}
			if e.branch(x) {
				return e.strConst("true").B
			}
			return e.strConst("false").B
		}
		switch verb {
		case 'd', 'v':
			if lossy && !x.IsConst() {
				return e.strConst("?").B
			}
			return e.formatDecimal(x, signed)
		case 'x', 'X':
			if lossy && !x.IsConst() {
				return e.strConst("?").B
			}
			pre := []*sym.Term{}
			if sharp {
				pre = e.strConst("0x").B
			}
			return append(pre, e.formatHexInt(x, width, zero, verb == 'X')...)
		case 'c':
			if x.IsConst() {
				return e.strConst(string(rune(x.Uint64()))).B
			}
			if x.W == 8 {
				// byte as rune: ASCII only modelled
				if e.branch(e.tb.ULt(x, e.tb.Const(8, 0x80))) {
					return []*sym.Term{x}
				}
				return []*sym.Term{e.tb.Or(e.tb.Const(8, 0xC0), e.tb.LShr(x, e.tb.Const(8, 6))), e.tb.Or(e.tb.Const(8, 0x80), e.tb.And(x, e.tb.Const(8, 0x3F)))}
			}
			return e.encodeRune(e.tb.ZExt(x, 32))
		case 's', 'q':
			return placeholder("%s of integer")
		case 'b':
			if x.IsConst() {
				return e.strConst(fmt.Sprintf("%b", x.Uint64())).B
			}
		}
		return placeholder(fmt.Sprintf("verb %%%c on symbolic int", verb))
	case Str:
		switch verb {
		case 's', 'v':
			return x.B
		case 'q':
			if cs, ok := concreteString(x); ok {
				return e.strConst(fmt.Sprintf("%q", cs)).B
			}
			if lossy {
				return append(append(e.strConst("\"").B, x.B...), e.byteConst('"'))
			}
		case 'x':
			return e.hexEncode(x.B, false)
		case 'X':
			return e.hexEncode(x.B, true)
		}
		return placeholder(fmt.Sprintf("verb %%%c on string", verb))
	case Slice:
		if x.Stride == 1 {
			if x.Len == 0 {
				if verb == 'x' || verb == 'X' || verb == 's' {
					return nil
				}
				return e.strConst("[]").B
			}
			if _, ok := x.Obj.Cells[x.Off].(*sym.Term); ok && x.Obj.Cells[x.Off].(*sym.Term).W == 8 {
				b := e.bytesOf(x)
				switch verb {
				case 'x':
					return e.hexEncode(b, false)
				case 'X':
					return e.hexEncode(b, true)
				case 's':
					return b
				}
			}
		}
		if lossy {
			return e.strConst("[?]").B
		}
		return placeholder(fmt.Sprintf("verb %%%c on slice", verb))
	case Agg:
		if lossy {
			return e.strConst("{?}").B
		}
		// [N]byte with %x
		if verb == 'x' || verb == 'X' {
			ts := make([]*sym.Term, len(x))
			for i, l := range x {
				tt, ok := l.(*sym.Term)
				if !ok || tt.W != 8 {
					return placeholder("%x on aggregate")
				}
				ts[i] = tt
			}
			return e.hexEncode(ts, verb == 'X')
		}
		return placeholder("aggregate")
	case Float:
		f := "%" + string(verb)
		return e.strConst(fmt.Sprintf(f, float64(x))).B
	case Ptr:
		if lossy {
			return e.strConst("0xc000000000").B
		}
	}
	return placeholder(fmt.Sprintf("argument kind %T verb %%%c", v, verb))
}

func (e *Exec) findMethod(t types.Type, name string) *ssa.Function {
	ms := e.prog.MethodSets.MethodSet(t)
	for i := 0; i < ms.Len(); i++ {
		sel := ms.At(i)
		if sel.Obj().Name() == name {
			return e.prog.MethodValue(sel)
		}
	}
	return nil
}

func isErrorSig(f *ssa.Function) bool {
	s := f.Signature
	return s.Params().Len() == 0 && s.Results().Len() == 1 && isString(s.Results().At(0).Type())
}
func isStringerSig(f *ssa.Function) bool { return isErrorSig(f) }

func (e *Exec) variadicArgs(v Value) []Value {
	s := v.(Slice)
	out := make([]Value, s.Len)
	for i := 0; i < s.Len; i++ {
		out[i] = s.Obj.Cells[s.Off+i*s.Stride]
	}
	return out
}

func init() {
	reg := func(name string, f intrinsic) { intrinsics[name] = f }
	str := func(v Value) Str { return v.(Str) }

	reg("fmt.Errorf", func(e *Exec, fn *ssa.Function, a []Value) Value {
		f, ok := concreteString(str(a[0]))
		if !ok {
			return e.errorValue(e.strConst("?"))
		}
		return e.errorValue(e.sprintf(f, e.variadicArgs(a[1]), nil, true))
	})
	reg("fmt.Sprintf", func(e *Exec, fn *ssa.Function, a []Value) Value {
		f, ok := concreteString(str(a[0]))
		if !ok {
			panic(unsupported("Sprintf with symbolic format"))
		}
		return e.sprintf(f, e.variadicArgs(a[1]), nil, e.cfg.LossyFmt)
	})
	reg("fmt.Sprint", func(e *Exec, fn *ssa.Function, a []Value) Value {
		args := e.variadicArgs(a[0])
		var out []*sym.Term
		for _, x := range args {
			out = append(out, e.formatArg('v', x, 0, false, false, false)...)
		}
		return Str{out}
	})
	for _, n := range []string{"fmt.Printf", "fmt.Println", "fmt.Print", "log.Printf", "log.Println", "log.Print", "fmt.Fprintf", "fmt.Fprintln"} {
		n := n
		reg(n, func(e *Exec, fn *ssa.Function, a []Value) Value {
			res := fn.Signature.Results()
			if res.Len() == 2 {
				return Tuple{e.tb.Const(64, 0), Iface{}}
			}
			return nil
		})
	}
	for _, n := range []string{"log.Fatalf", "log.Fatal", "log.Fatalln", "os.Exit", "log.Panicf"} {
		n := n
		reg(n, func(e *Exec, fn *ssa.Function, a []Value) Value {
			key := "panic/" + e.siteKey("fatal")
			e.violation(key, "panic", n+" reached (process exit)", e.ensureModel())
			e.end("panic", n)
			return nil
		})
	}

	reg("strings.ToUpper", func(e *Exec, fn *ssa.Function, a []Value) Value {
		s := str(a[0])
		if cs, ok := concreteString(s); ok {
			return e.strConst(strings.ToUpper(cs))
		}
		e.requireASCII(s, "strings.ToUpper")
		out := make([]*sym.Term, len(s.B))
		for i, c := range s.B {
			out[i] = e.toUpperByte(c)
		}
		return Str{out}
	})
	reg("strings.ToLower", func(e *Exec, fn *ssa.Function, a []Value) Value {
		s := str(a[0])
		if cs, ok := concreteString(s); ok {
			return e.strConst(strings.ToLower(cs))
		}
		e.requireASCII(s, "strings.ToLower")
		out := make([]*sym.Term, len(s.B))
		for i, c := range s.B {
			out[i] = e.toLowerByte(c)
		}
		return Str{out}
	})
	reg("strings.EqualFold", func(e *Exec, fn *ssa.Function, a []Value) Value {
		x, y := str(a[0]), str(a[1])
		e.requireASCII(x, "strings.EqualFold")
		e.requireASCII(y, "strings.EqualFold")
		if len(x.B) != len(y.B) {
			return e.tb.False
		}
		cs := []*sym.Term{}
		for i := range x.B {
			cs = append(cs, e.tb.Eq(e.toLowerByte(x.B[i]), e.toLowerByte(y.B[i])))
		}
		return e.tb.BAnd(cs...)
	})
	reg("strings.Repeat", func(e *Exec, fn *ssa.Function, a []Value) Value {
		s := str(a[0])
		nT := a[1].(*sym.Term)
		e.require(e.tb.SLe(e.tb.Const(64, 0), nT), "repeat", "strings.Repeat: negative count")
		e.require(e.tb.SLe(nT, e.tb.Const(64, 1<<20)), "repeat", "strings.Repeat: huge count")
		n := int(e.concretize(nT, "repeat"))
		out := make([]*sym.Term, 0, n*len(s.B))
		for i := 0; i < n; i++ {
			out = append(out, s.B...)
		}
		return Str{out}
	})
	reg("bytes.Repeat", func(e *Exec, fn *ssa.Function, a []Value) Value {
		s := a[0].(Slice)
		nT := a[1].(*sym.Term)
		e.require(e.tb.SLe(e.tb.Const(64, 0), nT), "repeat", "bytes.Repeat: negative count")
		e.require(e.tb.SLe(nT, e.tb.Const(64, 1<<20)), "repeat", "bytes.Repeat: huge count")
		n := int(e.concretize(nT, "repeat"))
		var b []*sym.Term
		if s.Len > 0 {
			b = e.bytesOf(s)
		}
		out := make([]*sym.Term, 0, n*len(b))
		for i := 0; i < n; i++ {
			out = append(out, b...)
		}
		return e.newByteSlice(out)
	})
	reg("bytes.Equal", func(e *Exec, fn *ssa.Function, a []Value) Value {
		return apiBytesEq(e, fn, a)
	})
	reg("crypto/subtle.ConstantTimeCompare", func(e *Exec, fn *ssa.Function, a []Value) Value {
		c := apiBytesEq(e, fn, a).(*sym.Term)
		return e.tb.Ite(c, e.tb.Const(64, 1), e.tb.Const(64, 0))
	})
	// subtle.XORBytes(dst, x, y): dst[i] = x[i] ^ y[i] for i < min(len(x), len(y)); panics if dst is shorter
	xorBytes := func(e *Exec, fn *ssa.Function, a []Value) Value {
		d, x, y := a[0].(Slice), a[1].(Slice), a[2].(Slice)
		n := x.Len
		if y.Len < n {
			n = y.Len
		}
		if n == 0 {
			return e.tb.Const(64, 0)
		}
		if d.Len < n {
			e.definitePanic("subtle", "subtle.XORBytes: dst too short")
		}
		xb, yb := e.bytesOf(x), e.bytesOf(y)
		for i := 0; i < n; i++ {
			e.setCell(d.Obj, d.Off+i*d.Stride, e.tb.Xor(xb[i], yb[i]))
		}
		return e.tb.Const(64, uint64(n))
	}
	reg("crypto/subtle.XORBytes", xorBytes)
	reg("crypto/internal/fips140/subtle.XORBytes", xorBytes)
	reg("encoding/hex.EncodeToString", func(e *Exec, fn *ssa.Function, a []Value) Value {
		s := a[0].(Slice)
		if s.Len == 0 {
			return Str{}
		}
		return Str{e.hexEncode(e.bytesOf(s), false)}
	})
	reg("encoding/hex.DecodeString", func(e *Exec, fn *ssa.Function, a []Value) Value {
		s := str(a[0])
		// hex.DecodeString: decodes pairs; error on invalid byte or odd length; returns decoded prefix
		n := len(s.B) / 2
		out := make([]*sym.Term, 0, n)
		for i := 0; i < n; i++ {
			hi, okH := e.hexVal(s.B[2*i])
			lo, okL := e.hexVal(s.B[2*i+1])
			if !e.branch(e.tb.BAnd(okH, okL)) {
				return Tuple{e.newByteSlice(out), e.errorValue(e.strConst("encoding/hex: invalid byte"))}
			}
			out = append(out, e.tb.Or(e.tb.Shl(hi, e.tb.Const(8, 4)), lo))
		}
		if len(s.B)%2 == 1 {
			_, ok := e.hexVal(s.B[len(s.B)-1])
			if e.branch(ok) {
				return Tuple{e.newByteSlice(out), e.errorValue(e.strConst("encoding/hex: odd length hex string"))}
			}
			return Tuple{e.newByteSlice(out), e.errorValue(e.strConst("encoding/hex: invalid byte"))}
		}
		return Tuple{e.newByteSlice(out), Iface{}}
	})
	reg("strings.HasPrefix", func(e *Exec, fn *ssa.Function, a []Value) Value {
		s, p := str(a[0]), str(a[1])
		if len(p.B) > len(s.B) {
			return e.tb.False
		}
		return e.strEq(Str{s.B[:len(p.B)]}, p)
	})
	reg("strings.HasSuffix", func(e *Exec, fn *ssa.Function, a []Value) Value {
		s, p := str(a[0]), str(a[1])
		if len(p.B) > len(s.B) {
			return e.tb.False
		}
		return e.strEq(Str{s.B[len(s.B)-len(p.B):]}, p)
	})
	reg("strings.TrimPrefix", func(e *Exec, fn *ssa.Function, a []Value) Value {
		s, p := str(a[0]), str(a[1])
		if len(p.B) > len(s.B) {
			return s
		}
		if e.branch(e.strEq(Str{s.B[:len(p.B)]}, p)) {
			return Str{s.B[len(p.B):]}
		}
		return s
	})
	reg("strings.TrimSuffix", func(e *Exec, fn *ssa.Function, a []Value) Value {
		s, p := str(a[0]), str(a[1])
		if len(p.B) > len(s.B) {
			return s
		}
		if e.branch(e.strEq(Str{s.B[len(s.B)-len(p.B):]}, p)) {
			return Str{s.B[:len(s.B)-len(p.B)]}
		}
		return s
	})
	reg("strings.Index", func(e *Exec, fn *ssa.Function, a []Value) Value {
		s, p := str(a[0]), str(a[1])
		return e.tb.ConstI(64, int64(e.indexOf(s, p, 0)))
	})
	reg("strings.Contains", func(e *Exec, fn *ssa.Function, a []Value) Value {
		s, p := str(a[0]), str(a[1])
		return e.tb.Bool(e.indexOf(s, p, 0) >= 0)
	})
	reg("strings.IndexByte", func(e *Exec, fn *ssa.Function, a []Value) Value {
		s := str(a[0])
		return e.tb.ConstI(64, int64(e.indexOf(s, Str{[]*sym.Term{a[1].(*sym.Term)}}, 0)))
	})
	reg("strings.Split", func(e *Exec, fn *ssa.Function, a []Value) Value {
		return e.splitStr(str(a[0]), str(a[1]), -1)
	})
	reg("strings.SplitN", func(e *Exec, fn *ssa.Function, a []Value) Value {
		n := int(e.mustConcreteInt(a[2], "SplitN n"))
		return e.splitStr(str(a[0]), str(a[1]), n)
	})
	reg("strings.Join", func(e *Exec, fn *ssa.Function, a []Value) Value {
		parts := a[0].(Slice)
		sep := str(a[1])
		var out []*sym.Term
		for i := 0; i < parts.Len; i++ {
			if i > 0 {
				out = append(out, sep.B...)
			}
			out = append(out, parts.Obj.Cells[parts.Off+i].(Str).B...)
		}
		return Str{out}
	})
	reg("strings.ReplaceAll", func(e *Exec, fn *ssa.Function, a []Value) Value {
		return e.replaceStr(str(a[0]), str(a[1]), str(a[2]), -1)
	})
	reg("strings.Replace", func(e *Exec, fn *ssa.Function, a []Value) Value {
		n := int(e.mustConcreteInt(a[3], "Replace n"))
		return e.replaceStr(str(a[0]), str(a[1]), str(a[2]), n)
	})
	isSpace := func(e *Exec, c *sym.Term) *sym.Term {
		k := func(v byte) *sym.Term { return e.tb.Eq(c, e.tb.Const(8, uint64(v))) }
		// unicode.IsSpace on Latin-1 single bytes: \t \n \v \f \r space, 0x85 and 0xA0 only as runes (multi-byte in UTF-8), so ASCII set here
		return e.tb.BOr(k(' '), k('\t'), k('\n'), k('\v'), k('\f'), k('\r'))
	}
	reg("strings.TrimSpace", func(e *Exec, fn *ssa.Function, a []Value) Value {
		s := str(a[0])
		if cs, ok := concreteString(s); ok {
			return e.strConst(strings.TrimSpace(cs))
		}
		e.requireASCII(s, "strings.TrimSpace")
		lo, hi := 0, len(s.B)
		for lo < hi && e.branch(isSpace(e, s.B[lo])) {
			lo++
		}
		for hi > lo && e.branch(isSpace(e, s.B[hi-1])) {
			hi--
		}
		return Str{s.B[lo:hi]}
	})
	trimRight := func(e *Exec, b []*sym.Term, cut Str) []*sym.Term {
		hi := len(b)
		for hi > 0 {
			var cs []*sym.Term
			for _, c := range cut.B {
				cs = append(cs, e.tb.Eq(b[hi-1], c))
			}
			if !e.branch(e.tb.BOr(cs...)) {
				break
			}
			hi--
		}
		return b[:hi]
	}
	reg("strings.TrimRight", func(e *Exec, fn *ssa.Function, a []Value) Value {
		s, cut := str(a[0]), str(a[1])
		e.requireASCII(cut, "strings.TrimRight cutset")
		return Str{trimRight(e, s.B, cut)}
	})
	reg("bytes.TrimRight", func(e *Exec, fn *ssa.Function, a []Value) Value {
		s, cut := a[0].(Slice), str(a[1])
		e.requireASCII(cut, "bytes.TrimRight cutset")
		if s.Len == 0 {
			return s
		}
		n := len(trimRight(e, e.bytesOf(s), cut))
		if n == 0 {
			return Slice{} // bytes.TrimRight returns nil when everything is trimmed
		}
		return Slice{Obj: s.Obj, Off: s.Off, Len: n, Cap: s.Cap, Stride: 1}
	})
	bytesStr := func(e *Exec, v Value) Str {
		s := v.(Slice)
		if s.Len == 0 {
			return Str{}
		}
		return Str{e.bytesOf(s)}
	}
	countOf := func(e *Exec, s, sep Str) int {
		if len(sep.B) == 0 {
			panic(unsupported("Count with empty separator"))
		}
		n, pos := 0, 0
		for {
			i := e.indexOf(s, sep, pos)
			if i < 0 {
				return n
			}
			n++
			pos = i + len(sep.B)
		}
	}
	reg("bytes.Count", func(e *Exec, fn *ssa.Function, a []Value) Value {
		return e.tb.Const(64, uint64(countOf(e, bytesStr(e, a[0]), bytesStr(e, a[1]))))
	})
	reg("strings.Count", func(e *Exec, fn *ssa.Function, a []Value) Value {
		return e.tb.Const(64, uint64(countOf(e, str(a[0]), str(a[1]))))
	})
	reg("bytes.Index", func(e *Exec, fn *ssa.Function, a []Value) Value {
		return e.tb.ConstI(64, int64(e.indexOf(bytesStr(e, a[0]), bytesStr(e, a[1]), 0)))
	})
	reg("bytes.IndexByte", func(e *Exec, fn *ssa.Function, a []Value) Value {
		return e.tb.ConstI(64, int64(e.indexOf(bytesStr(e, a[0]), Str{[]*sym.Term{a[1].(*sym.Term)}}, 0)))
	})
	// the assembly kernels behind strings/bytes (reached when newer helpers such as strings.Cut are executed from source)
	reg("internal/bytealg.IndexByteString", intrinsics["strings.IndexByte"])
	reg("internal/bytealg.IndexByte", intrinsics["bytes.IndexByte"])
	reg("internal/bytealg.IndexString", intrinsics["strings.Index"])
	reg("internal/bytealg.Index", intrinsics["bytes.Index"])
	reg("internal/bytealg.CountString", func(e *Exec, fn *ssa.Function, a []Value) Value {
		return e.tb.Const(64, uint64(countOf(e, str(a[0]), Str{[]*sym.Term{a[1].(*sym.Term)}})))
	})
	reg("internal/bytealg.Count", func(e *Exec, fn *ssa.Function, a []Value) Value {
		return e.tb.Const(64, uint64(countOf(e, bytesStr(e, a[0]), Str{[]*sym.Term{a[1].(*sym.Term)}})))
	})
	reg("internal/bytealg.Equal", intrinsics["bytes.Equal"])
	reg("internal/stringslite.Index", intrinsics["strings.Index"])
	reg("internal/stringslite.IndexByte", intrinsics["strings.IndexByte"])
	reg("bytes.Contains", func(e *Exec, fn *ssa.Function, a []Value) Value {
		return e.tb.Bool(e.indexOf(bytesStr(e, a[0]), bytesStr(e, a[1]), 0) >= 0)
	})
	reg("bytes.HasPrefix", func(e *Exec, fn *ssa.Function, a []Value) Value {
		s, p := bytesStr(e, a[0]), bytesStr(e, a[1])
		if len(p.B) > len(s.B) {
			return e.tb.False
		}
		return e.strEq(Str{s.B[:len(p.B)]}, p)
	})
	reg("bytes.Split", func(e *Exec, fn *ssa.Function, a []Value) Value {
		src := a[0].(Slice)
		s, sep := bytesStr(e, a[0]), bytesStr(e, a[1])
		if len(sep.B) == 0 {
			panic(unsupported("bytes.Split with empty separator"))
		}
		type span struct{ lo, hi int }
		var parts []span
		pos := 0
		for {
			i := e.indexOf(s, sep, pos)
			if i < 0 {
				break
			}
			parts = append(parts, span{pos, i})
			pos = i + len(sep.B)
		}
		parts = append(parts, span{pos, len(s.B)})
		o := e.newObject(len(parts), "byteslices")
		for i, p := range parts {
			// sub-slices alias the source, with capacity clipped (bytes.Split uses s[:m:m])
			if src.Obj == nil {
				o.Cells[i] = Slice{}
				continue
			}
			cp := p.hi - p.lo
			if i == len(parts)-1 {
				cp = src.Cap - p.lo
			}
			o.Cells[i] = Slice{Obj: src.Obj, Off: src.Off + p.lo, Len: p.hi - p.lo, Cap: cp, Stride: 1}
		}
		return Slice{Obj: o, Len: len(parts), Cap: len(parts), Stride: 1}
	})
	reg("strconv.Itoa", func(e *Exec, fn *ssa.Function, a []Value) Value {
		return Str{e.formatDecimal(a[0].(*sym.Term), true)}
	})
	// base-10 formatting helpers of strconv (same digit model as %d); other bases run from source
	base10 := func(e *Exec, v Value) bool {
		t, ok := v.(*sym.Term)
		return ok && t.IsConst() && t.Uint64() == 10
	}
	widen := func(e *Exec, t *sym.Term, signed bool) *sym.Term {
		if t.W == 64 {
			return t
		}
		if signed {
			return e.tb.SExt(t, 64)
		}
		return e.tb.ZExt(t, 64)
	}
	for name, signed := range map[string]bool{"strconv.FormatInt": true, "strconv.FormatUint": false} {
		signed := signed
		reg(name, func(e *Exec, fn *ssa.Function, a []Value) Value {
			if !base10(e, a[1]) {
				return e.runBody(fn, a)
			}
			return Str{e.formatDecimal(widen(e, a[0].(*sym.Term), signed), signed)}
		})
	}
	for name, signed := range map[string]bool{"strconv.AppendInt": true, "strconv.AppendUint": false} {
		signed := signed
		reg(name, func(e *Exec, fn *ssa.Function, a []Value) Value {
			if !base10(e, a[2]) {
				return e.runBody(fn, a)
			}
			digits := e.formatDecimal(widen(e, a[1].(*sym.Term), signed), signed)
			return e.appendOp(a[0].(Slice), e.newByteSlice(digits), types.NewSlice(types.Typ[types.Uint8]))
		})
	}
	reg("unicode/utf8.RuneCountInString", func(e *Exec, fn *ssa.Function, a []Value) Value {
		return e.tb.Const(64, uint64(len(e.decodeRunes(str(a[0])))))
	})
	reg("unicode/utf8.ValidString", func(e *Exec, fn *ssa.Function, a []Value) Value {
		for _, r := range e.decodeRunes(str(a[0])) {
			_ = r
		}
		panic(unsupported("utf8.ValidString"))
	})
	reg("sort.Strings", func(e *Exec, fn *ssa.Function, a []Value) Value {
		s := a[0].(Slice)
		// insertion sort with forking comparisons
		for i := 1; i < s.Len; i++ {
			for j := i; j > 0; j-- {
				x := s.Obj.Cells[s.Off+j-1].(Str)
				y := s.Obj.Cells[s.Off+j].(Str)
				if !e.branch(e.strLess(y, x)) {
					break
				}
				e.setCell(s.Obj, s.Off+j-1, y)
				e.setCell(s.Obj, s.Off+j, x)
			}
		}
		return nil
	})
	sortSlice := func(e *Exec, fn *ssa.Function, a []Value) Value {
		ifc := a[0].(Iface)
		s, ok := ifc.V.(Slice)
		if !ok {
			panic(unsupported("sort.Slice on non-slice"))
		}
		less := a[1].(*Closure)
		lessAt := func(i, j int) bool {
			r := e.callFunction(less.Fn, []Value{e.tb.Const(64, uint64(i)), e.tb.Const(64, uint64(j))}, less.Bind)
			return e.branch(r.(*sym.Term))
		}
		swap := func(i, j int) {
			for c := 0; c < s.Stride; c++ {
				x := s.Obj.Cells[s.Off+i*s.Stride+c]
				y := s.Obj.Cells[s.Off+j*s.Stride+c]
				e.setCell(s.Obj, s.Off+i*s.Stride+c, y)
				e.setCell(s.Obj, s.Off+j*s.Stride+c, x)
			}
		}
		// insertion sort (stable); sort.Slice makes no stability promise, any order consistent with less is a valid outcome
		for i := 1; i < s.Len; i++ {
			for j := i; j > 0 && lessAt(j, j-1); j-- {
				swap(j, j-1)
			}
		}
		return nil
	}
	reg("sort.Slice", sortSlice)
	reg("sort.SliceStable", sortSlice)
	_ = strings.ToUpper
}

// indexOf finds the first occurrence of p in s at or after from, forking on symbolic comparisons.
func (e *Exec) indexOf(s, p Str, from int) int {
	for i := from; i+len(p.B) <= len(s.B); i++ {
		if e.branch(e.strEq(Str{s.B[i : i+len(p.B)]}, p)) {
			return i
		}
	}
	return -1
}

func (e *Exec) strSliceValue(parts []Str) Value {
	o := e.newObject(len(parts), "strings")
	for i, p := range parts {
		o.Cells[i] = p
	}
	return Slice{Obj: o, Len: len(parts), Cap: len(parts), Stride: 1}
}

func (e *Exec) splitStr(s, sep Str, n int) Value {
	if n == 0 {
		return Slice{}
	}
	if len(sep.B) == 0 {
		panic(unsupported("strings.Split with empty separator"))
	}
	var parts []Str
	pos := 0
	for n < 0 || len(parts) < n-1 {
		i := e.indexOf(s, sep, pos)
		if i < 0 {
			break
		}
		parts = append(parts, Str{s.B[pos:i]})
		pos = i + len(sep.B)
	}
	parts = append(parts, Str{s.B[pos:]})
	return e.strSliceValue(parts)
}

func (e *Exec) replaceStr(s, old, nw Str, n int) Value {
	if len(old.B) == 0 {
		panic(unsupported("strings.Replace with empty old"))
	}
	var out []*sym.Term
	pos := 0
	cnt := 0
	for n < 0 || cnt < n {
		i := e.indexOf(s, old, pos)
		if i < 0 {
			break
		}
		out = append(out, s.B[pos:i]...)
		out = append(out, nw.B...)
		pos = i + len(old.B)
		cnt++
	}
	out = append(out, s.B[pos:]...)
	return Str{out}
}

// genericIntrinsic handles families matched by pattern rather than exact name.
func (e *Exec) genericIntrinsic(fn *ssa.Function) intrinsic {
	name := fn.String()
	if strings.HasPrefix(name, "github.com/TheManticoreProject/Manticore/logger.") {
		return func(e *Exec, fn *ssa.Function, a []Value) Value { return e.zeroResult(fn) }
	}
	return nil
}

func (e *Exec) zeroResult(fn *ssa.Function) Value {
	res := fn.Signature.Results()
	switch res.Len() {
	case 0:
		return nil
	case 1:
		return e.zeroValue(res.At(0).Type())
	}
	return e.zeroValue(res)
}

// opaqueMethod handles interface method calls on engine-defined opaque values.
func (e *Exec) opaqueMethod(recv Iface, m *types.Func, args []Value) func() Value {
	if o, ok := recv.V.(*opaqueObj); ok {
		return func() Value { return e.opaqueCall(o, m.Name(), args) }
	}
	return nil
}

// runeCount mirrors utf8.RuneCount for padding decisions. Constant text is counted natively; symbolic text forks on
// "all bytes are ASCII" (count = length) and otherwise on the class of every sequence start (1, 2, 3 or 4 bytes, with the
// accept ranges of unicode/utf8; an invalid byte counts as one rune, as in the runtime).
func (e *Exec) runeCount(piece []*sym.Term) int {
	allConst := true
	for _, b := range piece {
		if !b.IsConst() {
			allConst = false
			break
		}
	}
	if allConst {
		raw := make([]byte, len(piece))
		for i, b := range piece {
			raw[i] = byte(b.Uint64())
		}
		return utf8.RuneCount(raw)
	}
	tb := e.tb
	var ascii []*sym.Term
	for _, b := range piece {
		ascii = append(ascii, tb.ULt(b, tb.Const(8, 0x80)))
	}
	if e.branch(tb.BAnd(ascii...)) {
		return len(piece)
	}
	// exact utf8.RuneCount by forking on the class of each sequence start (accept ranges of unicode/utf8)
	in := func(b *sym.Term, lo, hi uint64) *sym.Term {
		return tb.BAnd(tb.ULe(tb.Const(8, lo), b), tb.ULe(b, tb.Const(8, hi)))
	}
	cont := func(b *sym.Term) *sym.Term { return in(b, 0x80, 0xBF) }
	n := 0
	for i := 0; i < len(piece); {
		b0 := piece[i]
		step := 1
		if i+3 < len(piece) {
			b1ok := tb.BOr(tb.BAnd(tb.Eq(b0, tb.Const(8, 0xF0)), in(piece[i+1], 0x90, 0xBF)),
				tb.BAnd(in(b0, 0xF1, 0xF3), cont(piece[i+1])),
				tb.BAnd(tb.Eq(b0, tb.Const(8, 0xF4)), in(piece[i+1], 0x80, 0x8F)))
			if e.branch(tb.BAnd(b1ok, cont(piece[i+2]), cont(piece[i+3]))) {
				step = 4
			}
		}
		if step == 1 && i+2 < len(piece) {
			b1ok := tb.BOr(tb.BAnd(tb.Eq(b0, tb.Const(8, 0xE0)), in(piece[i+1], 0xA0, 0xBF)),
				tb.BAnd(tb.BOr(in(b0, 0xE1, 0xEC), in(b0, 0xEE, 0xEF)), cont(piece[i+1])),
				tb.BAnd(tb.Eq(b0, tb.Const(8, 0xED)), in(piece[i+1], 0x80, 0x9F)))
			if e.branch(tb.BAnd(b1ok, cont(piece[i+2]))) {
				step = 3
			}
		}
		if step == 1 && i+1 < len(piece) {
			if e.branch(tb.BAnd(in(b0, 0xC2, 0xDF), cont(piece[i+1]))) {
				step = 2
			}
		}
		i += step
		n++
	}
	return n
}
