package symx

import (
	"fmt"
	"go/token"
	"go/types"
	"os"
	"strings"
	"sync"
	"unicode/utf8"

	"golang.org/x/tools/go/ssa"
	"verif/engine/sym"
)

var srcCache = map[string][]string{}
var srcMu sync.Mutex

func (e *Exec) srcLines(file string) []string {
	srcMu.Lock()
	defer srcMu.Unlock()
	if l, ok := srcCache[file]; ok {
		return l
	}
	var lines []string
	if ov, ok := e.overlay[file]; ok {
		lines = strings.Split(string(ov), "\n")
	} else if b, err := os.ReadFile(file); err == nil {
		lines = strings.Split(string(b), "\n")
	}
	srcCache[file] = lines
	return lines
}

// ---------------------------------------------------------------- binop

func (e *Exec) binop(op token.Token, x, y Value, xt, yt types.Type) Value {
	switch a := x.(type) {
	case *sym.Term:
		b := y.(*sym.Term)
		return e.intBinop(op, a, b, xt, yt)
	case Str:
		b := y.(Str)
		switch op {
		case token.ADD:
			out := make([]*sym.Term, 0, len(a.B)+len(b.B))
			out = append(out, a.B...)
			out = append(out, b.B...)
			return Str{out}
		case token.EQL:
			return e.strEq(a, b)
		case token.NEQ:
			return e.tb.Not(e.strEq(a, b))
		case token.LSS, token.LEQ, token.GTR, token.GEQ:
			sa, ok1 := concreteString(a)
			sb, ok2 := concreteString(b)
			if ok1 && ok2 {
				switch op {
				case token.LSS:
					return e.tb.Bool(sa < sb)
				case token.LEQ:
					return e.tb.Bool(sa <= sb)
				case token.GTR:
					return e.tb.Bool(sa > sb)
				default:
					return e.tb.Bool(sa >= sb)
				}
			}
			lt := e.strLess(a, b)
			switch op {
			case token.LSS:
				return lt
			case token.GEQ:
				return e.tb.Not(lt)
			case token.GTR:
				return e.strLess(b, a)
			default:
				return e.tb.Not(e.strLess(b, a))
			}
		}
	case Float:
		b := y.(Float)
		switch op {
		case token.ADD:
			return a + b
		case token.SUB:
			return a - b
		case token.MUL:
			return a * b
		case token.QUO:
			return a / b
		case token.EQL:
			return e.tb.Bool(a == b)
		case token.NEQ:
			return e.tb.Bool(a != b)
		case token.LSS:
			return e.tb.Bool(a < b)
		case token.LEQ:
			return e.tb.Bool(a <= b)
		case token.GTR:
			return e.tb.Bool(a > b)
		case token.GEQ:
			return e.tb.Bool(a >= b)
		}
	default:
		if op == token.EQL || op == token.NEQ {
			r := e.valueEq(x, y)
			if op == token.NEQ {
				r = e.tb.Not(r)
			}
			return r
		}
	}
	panic(unsupported(fmt.Sprintf("binop %s on %T", op, x)))
}

func (e *Exec) strEq(a, b Str) *sym.Term {
	if len(a.B) != len(b.B) {
		return e.tb.False
	}
	cs := make([]*sym.Term, 0, len(a.B))
	for i := range a.B {
		c := e.tb.Eq(a.B[i], b.B[i])
		if c.IsFalse() {
			return c
		}
		cs = append(cs, c)
	}
	return e.tb.BAnd(cs...)
}

// strLess: lexicographic a < b over bytes.
func (e *Exec) strLess(a, b Str) *sym.Term {
	n := len(a.B)
	if len(b.B) < n {
		n = len(b.B)
	}
	res := e.tb.Bool(len(a.B) < len(b.B))
	for i := n - 1; i >= 0; i-- {
		res = e.tb.Ite(e.tb.Eq(a.B[i], b.B[i]), res, e.tb.ULt(a.B[i], b.B[i]))
	}
	return res
}

func (e *Exec) valueEq(x, y Value) *sym.Term {
	switch a := x.(type) {
	case *sym.Term:
		return e.tb.Eq(a, y.(*sym.Term))
	case Str:
		return e.strEq(a, y.(Str))
	case Ptr:
		b := y.(Ptr)
		if a.Obj != b.Obj {
			return e.tb.False
		}
		if a.Obj == nil {
			return e.tb.True
		}
		if a.Sym != nil || b.Sym != nil {
			panic(unsupported("comparison of symbolic-index pointers"))
		}
		return e.tb.Bool(a.Off == b.Off)
	case Iface:
		b := y.(Iface)
		if a.T == nil || b.T == nil {
			return e.tb.Bool(a.T == nil && b.T == nil)
		}
		if !types.Identical(a.T, b.T) {
			return e.tb.False
		}
		return e.valueEq(a.V, b.V)
	case Agg:
		b := y.(Agg)
		cs := []*sym.Term{}
		for i := range a {
			cs = append(cs, e.valueEq(a[i], b[i]))
		}
		return e.tb.BAnd(cs...)
	case Slice:
		b := y.(Slice)
		if a.Obj == nil || b.Obj == nil {
			return e.tb.Bool(a.Obj == nil && b.Obj == nil)
		}
		panic(unsupported("slice comparison"))
	case *MapObj:
		b := y.(*MapObj)
		return e.tb.Bool(a == b)
	case *Closure:
		b := y.(*Closure)
		return e.tb.Bool(a == nil && b == nil || a != nil && b != nil && a == b)
	case *ChanObj:
		return e.tb.Bool(a == y.(*ChanObj))
	case Float:
		return e.tb.Bool(a == y.(Float))
	case *opaqueErr:
		b, ok := y.(*opaqueErr)
		return e.tb.Bool(ok && a == b)
	}
	panic(unsupported(fmt.Sprintf("equality on %T", x)))
}

func (e *Exec) intBinop(op token.Token, a, b *sym.Term, xt, yt types.Type) Value {
	tb := e.tb
	if a.W == 0 { // booleans
		switch op {
		case token.EQL:
			return tb.Eq(a, b)
		case token.NEQ:
			return tb.Not(tb.Eq(a, b))
		case token.AND, token.LAND:
			return tb.BAnd(a, b)
		case token.OR, token.LOR:
			return tb.BOr(a, b)
		}
		panic(unsupported("bool binop " + op.String()))
	}
	signed := isSigned(xt)
	switch op {
	case token.ADD:
		return tb.Add(a, b)
	case token.SUB:
		return tb.Sub(a, b)
	case token.MUL:
		return tb.Mul(a, b)
	case token.QUO, token.REM:
		e.require(tb.Not(tb.Eq(b, tb.Const(b.W, 0))), "div", "integer divide by zero")
		if signed {
			if op == token.QUO {
				return tb.SDiv(a, b)
			}
			return tb.SRem(a, b)
		}
		if op == token.QUO {
			return tb.UDiv(a, b)
		}
		return tb.URem(a, b)
	case token.AND:
		return tb.And(a, b)
	case token.OR:
		return tb.Or(a, b)
	case token.XOR:
		return tb.Xor(a, b)
	case token.AND_NOT:
		return tb.And(a, tb.Not(b))
	case token.SHL, token.SHR:
		// shift count: unsigned, or signed non-negative
		if isSigned(yt) {
			e.require(tb.SLe(tb.Const(b.W, 0), b), "shift", "negative shift amount")
		}
		var cnt *sym.Term
		w := a.W
		switch {
		case b.W == w:
			cnt = b
		case b.W < w:
			cnt = tb.ZExt(b, w)
		default:
			// count wider than value: saturate
			big := tb.ULe(tb.Const(b.W, uint64(w)), b)
			cnt = tb.Ite(big, tb.Const(w, uint64(w)), tb.Extract(b, w-1, 0))
		}
		if op == token.SHL {
			return tb.Shl(a, cnt)
		}
		if signed {
			return tb.AShr(a, cnt)
		}
		return tb.LShr(a, cnt)
	case token.EQL:
		return tb.Eq(a, b)
	case token.NEQ:
		return tb.Not(tb.Eq(a, b))
	case token.LSS:
		if signed {
			return tb.SLt(a, b)
		}
		return tb.ULt(a, b)
	case token.LEQ:
		if signed {
			return tb.SLe(a, b)
		}
		return tb.ULe(a, b)
	case token.GTR:
		if signed {
			return tb.SLt(b, a)
		}
		return tb.ULt(b, a)
	case token.GEQ:
		if signed {
			return tb.SLe(b, a)
		}
		return tb.ULe(b, a)
	}
	panic(unsupported("int binop " + op.String()))
}

// ---------------------------------------------------------------- conversions

func (e *Exec) convert(v Value, from, to types.Type) Value {
	fw, tw := widthOf(from), widthOf(to)
	switch x := v.(type) {
	case *sym.Term:
		if tw > 0 && fw > 0 {
			if tw == fw {
				return x
			}
			if tw < fw {
				return e.tb.Extract(x, tw-1, 0)
			}
			if isSigned(from) {
				return e.tb.SExt(x, tw)
			}
			return e.tb.ZExt(x, tw)
		}
		if isString(to) && fw > 0 {
			// string(rune)
			if x.IsConst() {
				return e.strConst(string(rune(e.concretizeRune(x, from))))
			}
			var r32 *sym.Term
			switch {
			case x.W == 32:
				r32 = x
			case x.W < 32 && isSigned(from):
				r32 = e.tb.SExt(x, 32)
			case x.W < 32:
				r32 = e.tb.ZExt(x, 32)
			default:
				// wider than 32 bits: out-of-range values become U+FFFD
				inRange := e.tb.ULe(x, e.tb.Const(x.W, 0x10FFFF))
				if !e.branch(inRange) {
					return e.strConst("\uFFFD")
				}
				r32 = e.tb.Extract(x, 31, 0)
			}
			return Str{e.encodeRune(r32)}
		}
		if isFloat(to) {
			if !x.IsConst() {
				panic(unsupported("int->float of symbolic value"))
			}
			if isSigned(from) {
				return Float(float64(x.Int64()))
			}
			return Float(float64(x.Uint64()))
		}
	case Float:
		if isFloat(to) {
			if b, ok := to.Underlying().(*types.Basic); ok && b.Kind() == types.Float32 {
				return Float(float64(float32(x)))
			}
			return x
		}
		if tw > 0 {
			if isSigned(to) {
				return e.tb.ConstI(tw, int64(x))
			}
			return e.tb.Const(tw, uint64(x))
		}
	case Str:
		if sl, ok := to.Underlying().(*types.Slice); ok {
			eb := sl.Elem().Underlying().(*types.Basic)
			if eb.Kind() == types.Uint8 {
				return e.newByteSlice(x.B)
			}
			if eb.Kind() == types.Int32 {
				runes := e.decodeRunes(x)
				o := e.newObject(len(runes), "runes")
				for i, r := range runes {
					o.Cells[i] = r
				}
				return Slice{Obj: o, Len: len(runes), Cap: len(runes), Stride: 1}
			}
		}
		if isString(to) {
			return x
		}
	case Slice:
		if isString(to) {
			eb := from.Underlying().(*types.Slice).Elem().Underlying().(*types.Basic)
			if eb.Kind() == types.Uint8 {
				if x.Obj == nil {
					return Str{}
				}
				return Str{B: e.bytesOf(x)}
			}
			if eb.Kind() == types.Int32 {
				var out []*sym.Term
				for i := 0; i < x.Len; i++ {
					r := x.Obj.Cells[x.Off+i].(*sym.Term)
					out = append(out, e.encodeRune(r)...)
				}
				return Str{out}
			}
		}
		if _, ok := to.Underlying().(*types.Slice); ok {
			return x
		}
	case Ptr:
		if _, ok := to.Underlying().(*types.Pointer); ok {
			return x
		}
		if b, ok := to.Underlying().(*types.Basic); ok && b.Kind() == types.UnsafePointer {
			return x
		}
		if b, ok := to.Underlying().(*types.Basic); ok && b.Kind() == types.Uintptr {
			return e.addressOf(x)
		}
	}
	panic(unsupported(fmt.Sprintf("convert %T from %s to %s", v, from, to)))
}

// addressOf gives a symbolic numeric address: base(obj)+off (rc4 overlap guard).
func (e *Exec) addressOf(p Ptr) *sym.Term {
	if p.Obj == nil {
		return e.tb.Const(64, 0)
	}
	if p.Obj.Base == nil {
		p.Obj.Base = e.tb.Var(fmt.Sprintf("addr!obj%d", p.Obj.ID), 64)
		// objects are at most 2^32 cells, bases are multiples of 2^32 in a 2^31 range, distinct
		lowZero := e.tb.Eq(e.tb.Extract(p.Obj.Base, 31, 0), e.tb.Const(32, 0))
		hiOK := e.tb.BAnd(e.tb.ULt(p.Obj.Base, e.tb.Const(64, 1<<62)), e.tb.ULt(e.tb.Const(64, 0), p.Obj.Base))
		e.addPC(lowZero)
		e.addPC(hiOK)
		for _, o := range e.addrObjs {
			e.addPC(e.tb.Not(e.tb.Eq(o.Base, p.Obj.Base)))
		}
		e.addrObjs = append(e.addrObjs, p.Obj)
	}
	if p.Sym != nil {
		panic(unsupported("address of symbolic-index pointer"))
	}
	return e.tb.Add(p.Obj.Base, e.tb.Const(64, uint64(p.Off)))
}

func (e *Exec) concretizeRune(x *sym.Term, from types.Type) int32 {
	if !x.IsConst() {
		v := e.concretize(x, "rune")
		return int32(v)
	}
	if isSigned(from) {
		return int32(x.Int64())
	}
	return int32(x.Uint64())
}

// decodeRunes decodes UTF-8 (forking on sequence shape); each rune is a 32-bit term.
func (e *Exec) decodeRunes(s Str) []*sym.Term {
	var out []*sym.Term
	for i := 0; i < len(s.B); {
		r, n := e.decodeRune(s.B[i:])
		out = append(out, r)
		i += n
	}
	return out
}

// decodeRune mirrors utf8.DecodeRune on symbolic bytes, forking on the shape.
func (e *Exec) decodeRune(b []*sym.Term) (*sym.Term, int) {
	tb := e.tb
	c8 := func(v uint64) *sym.Term { return tb.Const(8, v) }
	bad := tb.Const(32, utf8.RuneError)
	b0 := b[0]
	if b0.IsConst() && b0.Uint64() < 0x80 {
		return tb.ZExt(b0, 32), 1
	}
	if e.branch(tb.ULt(b0, c8(0x80))) {
		return tb.ZExt(b0, 32), 1
	}
	cont := func(x *sym.Term) *sym.Term { return tb.Eq(tb.And(x, c8(0xC0)), c8(0x80)) }
	z := func(x *sym.Term, m uint64) *sym.Term { return tb.ZExt(tb.And(x, c8(m)), 32) }
	sh := func(x *sym.Term, k uint64) *sym.Term { return tb.Shl(x, tb.Const(32, k)) }
	// 2-byte: C2..DF
	if e.branch(tb.BAnd(tb.ULe(c8(0xC2), b0), tb.ULe(b0, c8(0xDF)))) {
		if len(b) < 2 || !e.branch(cont(b[1])) {
			return bad, 1
		}
		return tb.Or(sh(z(b0, 0x1F), 6), z(b[1], 0x3F)), 2
	}
	// 3-byte: E0..EF
	if e.branch(tb.BAnd(tb.ULe(c8(0xE0), b0), tb.ULe(b0, c8(0xEF)))) {
		if len(b) < 3 {
			return bad, 1
		}
		lo := tb.Ite(tb.Eq(b0, c8(0xE0)), c8(0xA0), c8(0x80))
		hi := tb.Ite(tb.Eq(b0, c8(0xED)), c8(0x9F), c8(0xBF))
		ok := tb.BAnd(tb.ULe(lo, b[1]), tb.ULe(b[1], hi), cont(b[2]))
		if !e.branch(ok) {
			return bad, 1
		}
		return tb.Or(tb.Or(sh(z(b0, 0x0F), 12), sh(z(b[1], 0x3F), 6)), z(b[2], 0x3F)), 3
	}
	// 4-byte: F0..F4
	if e.branch(tb.BAnd(tb.ULe(c8(0xF0), b0), tb.ULe(b0, c8(0xF4)))) {
		if len(b) < 4 {
			return bad, 1
		}
		lo := tb.Ite(tb.Eq(b0, c8(0xF0)), c8(0x90), c8(0x80))
		hi := tb.Ite(tb.Eq(b0, c8(0xF4)), c8(0x8F), c8(0xBF))
		ok := tb.BAnd(tb.ULe(lo, b[1]), tb.ULe(b[1], hi), cont(b[2]), cont(b[3]))
		if !e.branch(ok) {
			return bad, 1
		}
		return tb.Or(tb.Or(tb.Or(sh(z(b0, 0x07), 18), sh(z(b[1], 0x3F), 12)), sh(z(b[2], 0x3F), 6)), z(b[3], 0x3F)), 4
	}
	return bad, 1
}

// encodeRune mirrors utf8.AppendRune on a 32-bit rune term, forking on the length.
func (e *Exec) encodeRune(r *sym.Term) []*sym.Term {
	tb := e.tb
	c := func(v uint64) *sym.Term { return tb.Const(32, v) }
	b := func(x *sym.Term) *sym.Term { return tb.Extract(x, 7, 0) }
	shr := func(x *sym.Term, k uint64) *sym.Term { return tb.LShr(x, c(k)) }
	if e.branch(tb.ULt(r, c(0x80))) {
		return []*sym.Term{b(r)}
	}
	if e.branch(tb.ULt(r, c(0x800))) {
		return []*sym.Term{b(tb.Or(c(0xC0), shr(r, 6))), b(tb.Or(c(0x80), tb.And(r, c(0x3F))))}
	}
	surr := tb.BAnd(tb.ULe(c(0xD800), r), tb.ULe(r, c(0xDFFF)))
	if e.branch(tb.BOr(surr, tb.ULt(c(0x10FFFF), r))) {
		return []*sym.Term{tb.Const(8, 0xEF), tb.Const(8, 0xBF), tb.Const(8, 0xBD)}
	}
	if e.branch(tb.ULt(r, c(0x10000))) {
		return []*sym.Term{b(tb.Or(c(0xE0), shr(r, 12))), b(tb.Or(c(0x80), tb.And(shr(r, 6), c(0x3F)))), b(tb.Or(c(0x80), tb.And(r, c(0x3F))))}
	}
	return []*sym.Term{b(tb.Or(c(0xF0), shr(r, 18))), b(tb.Or(c(0x80), tb.And(shr(r, 12), c(0x3F)))), b(tb.Or(c(0x80), tb.And(shr(r, 6), c(0x3F)))), b(tb.Or(c(0x80), tb.And(r, c(0x3F))))}
}

// ---------------------------------------------------------------- builtins

func (e *Exec) builtin(fr *frame, b *ssa.Builtin, cc *ssa.CallCommon, args []Value) Value {
	c64 := func(n int) *sym.Term { return e.tb.Const(64, uint64(n)) }
	switch b.Name() {
	case "len":
		switch x := args[0].(type) {
		case Slice:
			return c64(x.Len)
		case Str:
			return c64(len(x.B))
		case *MapObj:
			if x == nil {
				return c64(0)
			}
			return c64(len(x.Entries))
		case Agg:
			return c64(int(cc.Args[0].Type().Underlying().(*types.Array).Len()))
		case Ptr:
			return c64(int(cc.Args[0].Type().Underlying().(*types.Pointer).Elem().Underlying().(*types.Array).Len()))
		case *ChanObj:
			if x == nil {
				return c64(0)
			}
			return c64(len(x.Buf))
		}
	case "cap":
		switch x := args[0].(type) {
		case Slice:
			return c64(x.Cap)
		case Agg:
			return c64(int(cc.Args[0].Type().Underlying().(*types.Array).Len()))
		case *ChanObj:
			return c64(x.Cap)
		}
	case "append":
		return e.appendOp(args[0].(Slice), args[1], cc.Args[0].Type())
	case "copy":
		dst := args[0].(Slice)
		var n int
		switch src := args[1].(type) {
		case Slice:
			n = dst.Len
			if src.Len < n {
				n = src.Len
			}
			tmp := make([]Value, n*dst.Stride)
			for i := 0; i < n*dst.Stride; i++ {
				tmp[i] = src.Obj.Cells[src.Off+i]
			}
			for i := range tmp {
				e.setCell(dst.Obj, dst.Off+i, tmp[i])
			}
		case Str:
			n = dst.Len
			if len(src.B) < n {
				n = len(src.B)
			}
			for i := 0; i < n; i++ {
				e.setCell(dst.Obj, dst.Off+i, src.B[i])
			}
		}
		return c64(n)
	case "delete":
		e.guardMap(cc.Args[0], true)
		m := args[0].(*MapObj)
		if m != nil {
			e.mapDelete(m, args[1])
		}
		return nil
	case "panic":
		panic(&targetPanic{val: args[0], site: e.where()})
	case "recover":
		if e.curFrame != nil {
			// recover is called from a deferred closure: its caller frame is the panicking one
		}
		return e.recoverOp()
	case "print", "println":
		return nil
	case "min", "max":
		res := args[0].(*sym.Term)
		signed := isSigned(cc.Args[0].Type())
		for _, a := range args[1:] {
			t := a.(*sym.Term)
			var lt *sym.Term
			if signed {
				lt = e.tb.SLt(t, res)
			} else {
				lt = e.tb.ULt(t, res)
			}
			if b.Name() == "max" {
				lt = e.tb.Not(e.tb.BOr(lt, e.tb.Eq(t, res)))
			}
			res = e.tb.Ite(lt, t, res)
		}
		return res
	case "clear":
		switch x := args[0].(type) {
		case *MapObj:
			if x != nil {
				old := x.Entries
				if x.Epoch != e.epoch {
					e.undo = append(e.undo, func() { x.Entries = old })
				}
				x.Entries = nil
			}
		case Slice:
			elem := cc.Args[0].Type().Underlying().(*types.Slice).Elem()
			z := e.zeroLeaves(elem, nil)
			for i := 0; i < x.Len; i++ {
				for j, v := range z {
					e.setCell(x.Obj, x.Off+i*x.Stride+j, v)
				}
			}
		}
		return nil
	case "close":
		ch := args[0].(*ChanObj)
		ch.Closed = true
		return nil
	case "String": // unsafe.String(ptr, len)
		p := args[0].(Ptr)
		n := int(e.concretize(args[1].(*sym.Term), "unsafe.String"))
		out := make([]*sym.Term, n)
		for i := 0; i < n; i++ {
			out[i] = p.Obj.Cells[p.Off+i].(*sym.Term)
		}
		return Str{out}
	case "StringData":
		s := args[0].(Str)
		if len(s.B) == 0 {
			return Ptr{}
		}
		return Ptr{Obj: e.newByteSlice(s.B).Obj}
	case "SliceData":
		s := args[0].(Slice)
		return Ptr{Obj: s.Obj, Off: s.Off}
	case "Slice": // unsafe.Slice(ptr, len)
		p := args[0].(Ptr)
		n := int(e.concretize(args[1].(*sym.Term), "unsafe.Slice"))
		return Slice{Obj: p.Obj, Off: p.Off, Len: n, Cap: n, Stride: 1}
	}
	panic(unsupported(fmt.Sprintf("builtin %s on %T", b.Name(), args[0])))
}

func (e *Exec) recoverOp() Value {
	// the innermost panicking frame
	for i := len(e.panicFrames) - 1; i >= 0; i-- {
		fr := e.panicFrames[i]
		if fr.panicking != nil && !fr.recovered {
			fr.recovered = true
			v := fr.panicking.val
			if ifc, ok := v.(Iface); ok {
				return ifc
			}
			return Iface{T: types.Typ[types.String], V: v}
		}
	}
	return Iface{}
}

func (e *Exec) appendOp(s Slice, more Value, st types.Type) Value {
	elem := st.Underlying().(*types.Slice).Elem()
	stride := cellsOf(elem)
	var add []Value
	n := 0
	switch m := more.(type) {
	case Slice:
		n = m.Len
		for i := 0; i < m.Len*stride; i++ {
			add = append(add, m.Obj.Cells[m.Off+i])
		}
	case Str:
		n = len(m.B)
		for _, t := range m.B {
			add = append(add, t)
		}
	}
	if n == 0 {
		return s
	}
	if s.Obj != nil && s.Len+n <= s.Cap {
		for i, v := range add {
			e.setCell(s.Obj, s.Off+s.Len*stride+i, v)
		}
		return Slice{Obj: s.Obj, Off: s.Off, Len: s.Len + n, Cap: s.Cap, Stride: stride}
	}
	newCap := growCap(s.Cap, s.Len+n, goSize(elem))
	e.noteAlloc(newCap * goSize(elem))
	o := e.newObject(0, "append")
	cells := make([]Value, 0, newCap*stride)
	if s.Obj != nil {
		cells = append(cells, s.Obj.Cells[s.Off:s.Off+s.Len*stride]...)
	}
	cells = append(cells, add...)
	z := e.zeroLeaves(elem, nil)
	for len(cells) < newCap*stride {
		cells = append(cells, z...)
	}
	o.Cells = cells
	return Slice{Obj: o, Off: 0, Len: s.Len + n, Cap: newCap, Stride: stride}
}

// ---------------------------------------------------------------- maps

func (e *Exec) mapFind(m *MapObj, k Value) int {
	for i, en := range m.Entries {
		c := e.valueEq(en.K, k)
		if c.IsConst() {
			if c.IsTrue() {
				return i
			}
			continue
		}
		if e.branch(c) {
			return i
		}
	}
	return -1
}

func (e *Exec) mapUpdate(m *MapObj, k, v Value) {
	i := e.mapFind(m, k)
	old := m.Entries
	if m.Epoch != e.epoch {
		e.undo = append(e.undo, func() { m.Entries = old })
	}
	ne := make([]mapEntry, len(old), len(old)+1)
	copy(ne, old)
	if i >= 0 {
		ne[i].V = v
	} else {
		ne = append(ne, mapEntry{k, v})
	}
	m.Entries = ne
}

func (e *Exec) mapDelete(m *MapObj, k Value) {
	i := e.mapFind(m, k)
	if i < 0 {
		return
	}
	old := m.Entries
	if m.Epoch != e.epoch {
		e.undo = append(e.undo, func() { m.Entries = old })
	}
	ne := make([]mapEntry, 0, len(old))
	ne = append(ne, old[:i]...)
	ne = append(ne, old[i+1:]...)
	m.Entries = ne
}

func (e *Exec) lookup(x *ssa.Lookup, base, idx Value) Value {
	if s, ok := base.(Str); ok {
		// string index
		it := idx.(*sym.Term)
		it = e.toInt64(it, x.Index.Type())
		e.require(e.tb.ULt(it, e.tb.Const(64, uint64(len(s.B)))), "index", "string index out of range")
		return e.selectTerm(s.B, it)
	}
	m := base.(*MapObj)
	vt := x.X.Type().Underlying().(*types.Map).Elem()
	found := -1
	if m != nil {
		// fast path: all-concrete keys with term values and symbolic integer key -> ite
		if kt, ok := idx.(*sym.Term); ok && !kt.IsConst() && len(m.Entries) > 0 {
			if r := e.mapLookupIte(m, kt, vt, x.CommaOk); r != nil {
				return r
			}
		}
		found = e.mapFind(m, idx)
	}
	var v Value
	if found >= 0 {
		v = m.Entries[found].V
	} else {
		v = e.zeroValue(vt)
	}
	if x.CommaOk {
		return Tuple{v, e.tb.Bool(found >= 0)}
	}
	return v
}

func (e *Exec) mapLookupIte(m *MapObj, k *sym.Term, vt types.Type, commaOk bool) Value {
	if isAggregate(vt) {
		return nil
	}
	z := e.zeroValue(vt)
	switch z.(type) {
	case *sym.Term:
		res := z.(*sym.Term)
		okT := e.tb.False
		for i := len(m.Entries) - 1; i >= 0; i-- {
			en := m.Entries[i]
			kk, ok1 := en.K.(*sym.Term)
			vv, ok2 := en.V.(*sym.Term)
			if !ok1 || !ok2 {
				return nil
			}
			c := e.tb.Eq(k, kk)
			res = e.tb.Ite(c, vv, res)
			okT = e.tb.BOr(c, okT)
		}
		if commaOk {
			return Tuple{res, okT}
		}
		return res
	}
	return nil
}

// ---------------------------------------------------------------- range

func (e *Exec) rangeInit(x Value) Value {
	switch v := x.(type) {
	case Str:
		return &RangeIter{Kind: 0, S: v}
	case *MapObj:
		it := &RangeIter{Kind: 1, M: v}
		if v != nil {
			it.Keys = append(it.Keys, v.Entries...)
			if e.mapOrderReverse {
				for i, j := 0, len(it.Keys)-1; i < j; i, j = i+1, j-1 {
					it.Keys[i], it.Keys[j] = it.Keys[j], it.Keys[i]
				}
			}
		}
		return it
	}
	panic(unsupported(fmt.Sprintf("range over %T", x)))
}

func (e *Exec) rangeNext(x *ssa.Next, it *RangeIter) Value {
	tup := x.Type().(*types.Tuple)
	if it.Kind == 0 {
		if it.Pos >= len(it.S.B) {
			return Tuple{e.tb.False, e.tb.Const(64, 0), e.tb.Const(32, 0)}
		}
		r, n := e.decodeRune(it.S.B[it.Pos:])
		pos := it.Pos
		it.Pos += n
		return Tuple{e.tb.True, e.tb.Const(64, uint64(pos)), r}
	}
	for it.Pos < len(it.Keys) {
		en := it.Keys[it.Pos]
		it.Pos++
		// entry still present? (deleted during iteration are skipped)
		present := false
		var cur Value
		for _, ce := range it.M.Entries {
			c := e.valueEq(ce.K, en.K)
			if c.IsTrue() {
				present = true
				cur = ce.V
				break
			}
		}
		if !present {
			continue
		}
		return Tuple{e.tb.True, en.K, cur}
	}
	return Tuple{e.tb.False, e.zeroOrNil(tup.At(1).Type()), e.zeroOrNil(tup.At(2).Type())}
}

// ---------------------------------------------------------------- channels / goroutines (minimal)

func (e *Exec) chanSend(ch *ChanObj, v Value) {
	if ch == nil {
		e.end("limit", "send on nil channel blocks forever")
	}
	if ch.Closed {
		e.definitePanic("chan", "send on closed channel")
	}
	if ch.Cap > 0 && len(ch.Buf) >= ch.Cap {
		// a full buffered channel: the sender waits until a receiver has made room
		if !e.block(func() bool { return len(ch.Buf) < ch.Cap || ch.Closed }, false) {
			e.end("limit", "send on a full channel blocks forever at "+e.where())
		}
		if ch.Closed {
			e.definitePanic("chan", "send on closed channel")
		}
	}
	ch.Buf = append(ch.Buf, v)
}

func (e *Exec) chanRecv(ch *ChanObj, commaOk bool, t types.Type) Value {
	if ch == nil {
		e.end("limit", "receive on nil channel blocks forever")
	}
	if ch.Timer {
		e.block(func() bool { return false }, true) // <-time.After(d): the other goroutines run first
	} else if len(ch.Buf) == 0 && !ch.Closed {
		e.block(func() bool { return len(ch.Buf) > 0 || ch.Closed }, false)
	}
	var v Value
	ok := true
	if len(ch.Buf) > 0 {
		v = ch.Buf[0]
		ch.Buf = ch.Buf[1:]
	} else if ch.Closed {
		ok = false
		if commaOk {
			v = e.zeroValue(t.(*types.Tuple).At(0).Type())
		} else {
			v = e.zeroValue(t)
		}
	} else {
		e.end("limit", "receive would block (deadlock in model) at "+e.where())
	}
	if commaOk {
		return Tuple{v, e.tb.Bool(ok)}
	}
	return v
}

func (e *Exec) selectOp(fr *frame, x *ssa.Select) Value {
	// returns (index, recvOk, recv_0..recv_n)
	tup := x.Type().(*types.Tuple)
	out := make(Tuple, tup.Len())
	for i := range out {
		out[i] = e.zeroValue(tup.At(i).Type())
	}
	chans := make([]*ChanObj, len(x.States))
	hasTimer := false
	for i, st := range x.States {
		chans[i] = e.get(fr, st.Chan).(*ChanObj)
		if chans[i] != nil && chans[i].Timer {
			hasTimer = true
		}
	}
	ready := func(i int, timers bool) bool {
		ch := chans[i]
		if ch == nil {
			return false
		}
		if ch.Timer != timers {
			return false
		}
		if x.States[i].Dir == types.RecvOnly {
			return len(ch.Buf) > 0 || ch.Closed
		}
		return !ch.Closed && (len(ch.Buf) < ch.Cap || ch.Cap == 0)
	}
	anyReady := func() bool {
		for i := range chans {
			if ready(i, false) {
				return true
			}
		}
		return false
	}
	take := func(timers bool) bool {
		ri := 2
		for i, st := range x.States {
			if st.Dir == types.RecvOnly {
				if ready(i, timers) {
					ch := chans[i]
					out[0] = e.tb.Const(64, uint64(i))
					if len(ch.Buf) > 0 {
						out[ri] = ch.Buf[0]
						ch.Buf = ch.Buf[1:]
						out[1] = e.tb.True
					} else {
						out[1] = e.tb.False
					}
					return true
				}
				ri++
			} else if ready(i, timers) {
				chans[i].Buf = append(chans[i].Buf, e.get(fr, st.Send))
				out[0] = e.tb.Const(64, uint64(i))
				return true
			}
		}
		return false
	}
	if take(false) {
		return out
	}
	if !x.Blocking {
		out[0] = e.tb.ConstI(64, -1)
		return out
	}
	// a timer case (time.After) fires only when nothing else in the system can run
	e.block(anyReady, hasTimer)
	if take(false) {
		return out
	}
	if hasTimer && take(true) {
		return out
	}
	e.end("limit", "blocking select with no ready case at "+e.where())
	return nil
}

// zeroOrNil is zeroValue tolerating the "invalid type" go/ssa uses for unused range components.
func (e *Exec) zeroOrNil(t types.Type) Value {
	if b, ok := t.(*types.Basic); ok && b.Kind() == types.Invalid {
		return nil
	}
	return e.zeroValue(t)
}
