package symx

import (
	"fmt"

	"golang.org/x/tools/go/ssa"
	"verif/engine/sym"
)

// Pure-callee summaries: a function over integer arguments with one integer result and no heap effects is explored
// once on fresh symbols; its paths are merged into one ite term that is substituted at every call site.

type fnSummary struct {
	params []*sym.Term
	result *sym.Term
	paths  int
	failed bool
	why    string
}

// effWidth is the number of low bits of t that can be non-zero (from the cheap unsigned range analysis).
func (e *Exec) effWidth(t *sym.Term) int {
	_, max := e.tb.URange(t)
	w := max.BitLen()
	if w == 0 {
		w = 1
	}
	if w > t.W {
		w = t.W
	}
	return w
}

func (e *Exec) summaryFor(fn *ssa.Function, widths []int) *fnSummary {
	key := fmt.Sprint(fn.String(), widths)
	if s, ok := e.sums[key]; ok {
		return s
	}
	s := &fnSummary{}
	if e.sums == nil {
		e.sums = map[string]*fnSummary{}
	}
	e.sums[key] = s
	sig := fn.Signature
	if sig.Results().Len() != 1 || widthOf(sig.Results().At(0).Type()) < 0 {
		s.failed = true
		return s
	}
	var args []Value
	for i, p := range fn.Params {
		w := widthOf(p.Type())
		if w < 0 {
			s.failed = true
			return s
		}
		ew := w
		if i < len(widths) && widths[i] < w {
			ew = widths[i]
		}
		// the parameter ranges over the values the actual argument can take: ew low bits, zero above
		v := e.tb.Var(fmt.Sprintf("sum!%s!%d!%d", fn.Name(), i, ew), ew)
		s.params = append(s.params, v)
		args = append(args, e.tb.ZExt(v, w))
	}
	sub := &Exec{tb: e.tb, prog: e.prog, cfg: &Config{Unwind: 200, MaxSteps: 200000, MaxPaths: 2000, MaxDepth: 30, ConcMax: 64, TimeoutMs: e.cfg.TimeoutMs, Abstract: map[string]string{}},
		rep: newReport(), qcache: map[string]qres{}, globals: e.globals, inited: e.inited, harness: e.harness,
		inputSeen: map[string]bool{}, ifconvOK: map[*ssa.BasicBlock]*ifRegion{}}
	sub.bytes = e.bytes
	sub.overlay = e.overlay
	sub.solver = sym.NewSolver(sym.Z3New, e.tb, e.cfg.TimeoutMs)
	defer sub.solver.Close()
	type pathRes struct {
		pc  []*sym.Term
		ret *sym.Term
	}
	var results []pathRes
	sub.work = []workItem{{}}
	for len(sub.work) > 0 {
		it := sub.work[len(sub.work)-1]
		sub.work = sub.work[:len(sub.work)-1]
		if len(results) > 256 {
			s.failed = true
			return s
		}
		var ret Value
		ok := func() (ok bool) {
			sub.epoch = e.epoch // objects created are path-local to the sub-run but nothing escapes (pure)
			sub.pc, sub.pcSet, sub.model = nil, map[int]bool{}, nil
			sub.prefix, sub.pmodel, sub.trace, sub.pos = it.prefix, it.model, nil, 0
			sub.steps, sub.depth, sub.lockState = 0, 0, map[*Object]int{}
			defer func() {
				if r := recover(); r != nil {
					ok = false
					s.why = fmt.Sprint(r)
				}
			}()
			ret = sub.callFunction(fn, args, nil)
			return true
		}()
		if !ok || len(sub.rep.Obls) > 0 {
			s.failed = true
			if s.why == "" {
				s.why = fmt.Sprintf("callee has run-time obligations (%d)", len(sub.rep.Obls))
			}
			return s
		}
		t, isTerm := ret.(*sym.Term)
		if !isTerm {
			s.failed = true
			return s
		}
		results = append(results, pathRes{append([]*sym.Term{}, sub.pc...), t})
	}
	if len(results) == 0 {
		s.failed = true
		return s
	}
	res := results[len(results)-1].ret
	for i := len(results) - 2; i >= 0; i-- {
		res = e.tb.Ite(e.tb.BAnd(results[i].pc...), results[i].ret, res)
	}
	s.result = res
	s.paths = len(results)
	return s
}

// trySummary returns the summarised result of fn(args) or nil when no summary applies.
func (e *Exec) trySummary(fn *ssa.Function, args []Value) Value {
	var widths []int
	for _, a := range args {
		t, ok := a.(*sym.Term)
		if !ok || t.W == 0 {
			return nil
		}
		widths = append(widths, e.effWidth(t))
	}
	s := e.summaryFor(fn, widths)
	if s.failed {
		e.rep.Stubs["summary of "+fn.String()+" NOT applicable: "+s.why]++
		return nil
	}
	m := map[int]*sym.Term{}
	for i, p := range s.params {
		t, ok := args[i].(*sym.Term)
		if !ok {
			return nil
		}
		m[p.ID] = e.tb.Extract(t, p.W-1, 0)
	}
	e.rep.Stubs[fmt.Sprintf("pure-callee summary of %s (%d paths merged into one ite term)", fn.String(), s.paths)]++
	return e.tb.Subst(s.result, m, map[int]*sym.Term{})
}
