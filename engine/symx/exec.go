package symx

import (
	"fmt"
	"go/constant"
	"go/token"
	"go/types"
	"math/big"
	"strings"

	"golang.org/x/tools/go/ssa"
	"verif/engine/sym"
)

type fnInfo struct {
	fn *ssa.Function
}

type deferred struct {
	fn   Value // *Closure
	args []Value
	call *ssa.CallCommon
}

type frame struct {
	fn        *ssa.Function
	regs      map[ssa.Value]Value
	defers    []deferred
	visits    map[*ssa.BasicBlock]int
	result    Value
	panicking *targetPanic
	recovered bool
	skipPhi   *ssa.BasicBlock
}

// ---------------------------------------------------------------- operands

func (e *Exec) constValue(c *ssa.Const) Value {
	t := c.Type()
	if c.Value == nil {
		return e.zeroValue(t)
	}
	if w := widthOf(t); w >= 0 {
		if w == 0 {
			return e.tb.Bool(constant.BoolVal(c.Value))
		}
		v := constant.ToInt(c.Value)
		bi, ok := constantBig(v)
		if !ok {
			panic(unsupported("constant " + c.String()))
		}
		return e.tb.ConstBig(w, bi)
	}
	if isString(t) {
		return e.strConst(constant.StringVal(c.Value))
	}
	if isFloat(t) {
		f, _ := constant.Float64Val(c.Value)
		return Float(f)
	}
	panic(unsupported("constant of type " + t.String()))
}

func constantBig(v constant.Value) (*big.Int, bool) {
	if v.Kind() != constant.Int {
		return nil, false
	}
	if i, ok := constant.Int64Val(v); ok {
		return big.NewInt(i), true
	}
	bi, ok := new(big.Int).SetString(v.ExactString(), 10)
	return bi, ok
}

func (e *Exec) get(fr *frame, v ssa.Value) Value {
	switch x := v.(type) {
	case *ssa.Const:
		return e.constValue(x)
	case *ssa.Global:
		return Ptr{Obj: e.globalObj(x)}
	case *ssa.Function:
		return &Closure{Fn: x}
	case *ssa.Builtin:
		panic(unsupported("builtin as value " + x.Name()))
	}
	r, ok := fr.regs[v]
	if !ok {
		panic(fmt.Sprintf("register %s (%T) unset in %s", v.Name(), v, fr.fn))
	}
	return r
}

func (e *Exec) globalObj(g *ssa.Global) *Object {
	if o, ok := e.globals[g]; ok {
		return o
	}
	save := e.epoch
	e.epoch = 0 // globals are persistent
	o := e.allocType(g.Type().(*types.Pointer).Elem(), "global "+g.String())
	e.epoch = save
	e.globals[g] = o
	if g.Pkg != nil {
		e.initPackage(g.Pkg)
	}
	return o
}

var initAllow = []string{
	"github.com/TheManticoreProject/Manticore",
	"io", "errors", "encoding/binary", "encoding/hex", "encoding/base64", "unicode", "unicode/utf8", "unicode/utf16", "strconv", "bytes", "strings",
}

func initAllowed(path string) bool {
	for _, p := range initAllow {
		if path == p || (strings.HasPrefix(p, "github.com/") && strings.HasPrefix(path, p)) {
			return true
		}
	}
	return false
}

// initPackage runs the synthesized package initialiser once (persistent epoch).
func (e *Exec) initPackage(p *ssa.Package) {
	if e.inited[p] {
		return
	}
	e.inited[p] = true
	if !initAllowed(p.Pkg.Path()) {
		e.rep.Stubs["init of "+p.Pkg.Path()+" skipped (globals zero)"]++
		return
	}
	initFn := p.Func("init")
	if initFn == nil {
		return
	}
	saveEpoch, savePC, savePCSet, saveModel, saveInstr := e.epoch, e.pc, e.pcSet, e.model, e.curInstr
	saveDepth := e.depth
	e.epoch = 0
	e.pc, e.pcSet, e.model = nil, map[int]bool{}, nil
	e.depth = 0
	func() {
		defer func() {
			if r := recover(); r != nil {
				switch x := r.(type) {
				case pathEnd:
					e.rep.Stubs[fmt.Sprintf("init of %s aborted: %s %s", p.Pkg.Path(), x.kind, x.msg)]++
				case unsupportedErr:
					e.rep.Stubs[fmt.Sprintf("init of %s aborted: %s", p.Pkg.Path(), x.msg)]++
				default:
					panic(r)
				}
			}
		}()
		e.callFunction(initFn, nil, nil)
	}()
	e.epoch, e.pc, e.pcSet, e.model, e.curInstr = saveEpoch, savePC, savePCSet, saveModel, saveInstr
	e.depth = saveDepth
}

// ---------------------------------------------------------------- panics / obligations

func (e *Exec) siteKey(kind string) string {
	in := e.curInstr
	if in == nil {
		return kind
	}
	fn := in.Parent()
	pos := e.prog.Fset.Position(in.Pos())
	name := fn.String()
	for fn.Parent() != nil {
		fn = fn.Parent()
	}
	txt := ""
	if pos.IsValid() {
		txt = e.sourceLine(pos)
	}
	return fmt.Sprintf("%s/%s/%s", name, kind, txt)
}

func (e *Exec) sourceLine(pos token.Position) string {
	lines := e.srcLines(pos.Filename)
	if pos.Line-1 < len(lines) {
		return strings.TrimSpace(lines[pos.Line-1])
	}
	return fmt.Sprintf("%s:%d", shortFile(pos.Filename), pos.Line)
}

// definitePanic: the current path certainly panics here.
func (e *Exec) definitePanic(kind, msg string) {
	if len(e.guard) > 0 {
		g := e.guard
		e.guard = nil
		e.require(e.tb.Not(e.tb.BAnd(g...)), kind, msg)
		e.guard = g
		panic(unsupported("definite panic inside an if-converted region (guard assumed false): " + msg))
	}
	if e.catchDepth > 0 {
		panic(&targetPanic{val: e.strConst(msg), site: e.where()})
	}
	key := "panic/" + e.siteKey(kind)
	m := e.ensureModel()
	e.violation(key, "panic", msg, m)
	e.end("panic", msg)
}

// require states an implicit run-time check: ok must hold or Go panics.
func (e *Exec) require(ok *sym.Term, kind, msg string) {
	if ok.IsTrue() {
		return
	}
	if len(e.guard) > 0 {
		// inside an if-converted region the check only matters when the region's guard holds
		ok = e.tb.Implies(e.tb.BAnd(e.guard...), ok)
		if ok.IsTrue() {
			return
		}
	}
	if ok.IsFalse() {
		e.definitePanic(kind, msg)
	}
	if e.catchDepth > 0 {
		if e.branch(e.tb.Not(ok)) {
			panic(&targetPanic{val: e.strConst(msg), site: e.where()})
		}
		return
	}
	if e.pcSet[ok.ID] {
		return
	}
	key := "panic/" + e.siteKey(kind)
	o := e.rep.obl(key)
	nok := e.tb.Not(ok)
	r, m := e.check(nok)
	switch r {
	case sym.Sat:
		e.violation(key, "panic", msg, m)
	case sym.Unknown:
		o.Unknown++
		e.rep.noteInconclusive(key, "solver unknown")
	default:
		o.Proved++
	}
	if ok.Size > o.MaxSize {
		o.MaxSize = ok.Size
	}
	e.assume(ok)
}

// checkObl is the harness-level assertion.
func (e *Exec) checkObl(c *sym.Term, id string) {
	if len(e.cfg.CheckPrefix) > 0 {
		sel := false
		for _, p := range e.cfg.CheckPrefix {
			if strings.HasPrefix(id, p) {
				sel = true
			}
		}
		if !sel {
			return
		}
	}
	key := "check/" + id
	o := e.rep.obl(key)
	if c.IsTrue() {
		o.Folded++
		return
	}
	if c.Size > o.MaxSize {
		o.MaxSize = c.Size
	}
	if c.IsFalse() {
		e.violation(key, "check", "assertion false on this path", e.ensureModel())
		e.end("assume", "assertion failed")
	}
	r, m := e.check(e.tb.Not(c))
	switch r {
	case sym.Sat:
		e.violation(key, "check", "assertion can fail", m)
		// two more witnesses with different input values: under an uninterpreted-function abstraction a single witness
		// may happen to be one of the few inputs on which the real kernel agrees (it would then fail to replay)
		var blocks []*sym.Term
		for k := 0; k < 2 && m != nil; k++ {
			d := e.differsFrom(m)
			if d == nil {
				break
			}
			blocks = append(blocks, d)
			r2, m2 := e.check(append([]*sym.Term{e.tb.Not(c)}, blocks...)...)
			if r2 != sym.Sat || m2 == nil {
				break
			}
			e.violation(key, "check", "assertion can fail", m2)
			m = m2
		}
	case sym.Unknown:
		o.Unknown++
		e.rep.noteInconclusive(key, "solver unknown on obligation")
	default:
		o.Proved++
	}
	e.assume(c)
}

// ---------------------------------------------------------------- calls

func (e *Exec) callFunction(fn *ssa.Function, args []Value, bind []Value) Value {
	if fn == nil {
		e.definitePanic("nil-func", "call of nil function")
	}
	name := fn.String()
	if sym, ok := e.cfg.Abstract[name]; ok {
		return e.abstractCall(fn, sym, args)
	}
	if h, ok := intrinsics[name]; ok && e.skipIntrinsic != fn {
		e.rep.Stubs[name]++
		return h(e, fn, args)
	}
	e.skipIntrinsic = nil
	if e.cfg.Summarize[name] {
		if r := e.trySummary(fn, args); r != nil {
			return r
		}
	}
	if fn.Pkg != nil && e.harness != nil && fn.Blocks == nil && fn.Signature.Recv() == nil { // the shim is overlaid into every harness package
		if h, ok := harnessAPI[fn.Name()]; ok {
			return h(e, fn, args)
		}
	}
	if h := e.genericIntrinsic(fn); h != nil {
		e.rep.Stubs[name]++
		return h(e, fn, args)
	}
	if fn.Blocks == nil {
		panic(unsupported("no body for " + name))
	}
	if isTimeMethod(name) {
		panic(unsupported("time.Time method without a model: " + name))
	}
	if fn.Synthetic != "" && strings.HasPrefix(fn.Synthetic, "package initializer") && e.depth > 0 {
		// dependency initialisers are run lazily on first global access
		return nil
	}
	e.depth++
	if e.depth > e.cfg.MaxDepth {
		e.depth--
		e.unwindHit("call depth limit in " + name)
	}
	defer func() { e.depth-- }()
	e.rep.Funcs[name]++
	if g := e.cfg.LockGuard; g != nil && fn.Signature.Recv() != nil && fn.Signature.Recv().Type().String() == g.ScopeRecv {
		e.guardDepth++
		defer func() { e.guardDepth-- }()
	}
	fr := &frame{fn: fn, regs: make(map[ssa.Value]Value, 32), visits: map[*ssa.BasicBlock]int{}}
	for i, p := range fn.Params {
		fr.regs[p] = args[i]
	}
	for i, fv := range fn.FreeVars {
		fr.regs[fv] = bind[i]
	}
	return e.runFrame(fr)
}

func (e *Exec) unwindHit(msg string) {
	e.rep.UnwindHits++
	key := "unwind/" + e.siteKey("limit")
	e.violation(key, "unwind", msg, e.ensureModel())
	e.end("limit", msg)
}

func (e *Exec) runFrame(fr *frame) (result Value) {
	// target panics unwind through here: run deferred calls
	defer func() {
		if r := recover(); r != nil {
			tp, ok := r.(*targetPanic)
			if !ok {
				panic(r)
			}
			fr.panicking = tp
			e.panicFrames = append(e.panicFrames, fr)
			e.runDefers(fr)
			e.panicFrames = e.panicFrames[:len(e.panicFrames)-1]
			if fr.recovered {
				result = e.namedResults(fr)
				return
			}
			panic(tp)
		}
	}()
	b := fr.fn.Blocks[0]
	var prev *ssa.BasicBlock
	for {
		fr.visits[b]++
		if fr.visits[b] > e.cfg.Unwind {
			e.unwindHit(fmt.Sprintf("loop unwinding limit %d reached in %s", e.cfg.Unwind, fr.fn))
		}
		next, done, ret := e.runBlock(fr, b, prev)
		if done {
			return ret
		}
		prev, b = b, next
	}
}

func (e *Exec) namedResults(fr *frame) Value {
	// after recover: results are the named result variables (ssa: fn.namedResults not exported); use zero
	res := fr.fn.Signature.Results()
	switch res.Len() {
	case 0:
		return nil
	case 1:
		return e.zeroValue(res.At(0).Type())
	}
	return e.zeroValue(res)
}

func (e *Exec) runDefers(fr *frame) {
	for len(fr.defers) > 0 {
		d := fr.defers[len(fr.defers)-1]
		fr.defers = fr.defers[:len(fr.defers)-1]
		e.invokeDeferred(fr, d)
	}
}

func (e *Exec) invokeDeferred(fr *frame, d deferred) {
	cur := e.curFrame
	e.curFrame = fr
	defer func() { e.curFrame = cur }()
	e.doCall(fr, d.call, d.fn, d.args)
}

func (e *Exec) runBlock(fr *frame, b *ssa.BasicBlock, prev *ssa.BasicBlock) (next *ssa.BasicBlock, done bool, ret Value) {
	e.noteBlock(b)
	// phis first (parallel assignment)
	nphi := 0
	if fr.skipPhi == b {
		fr.skipPhi = nil
		for _, in := range b.Instrs {
			if _, ok := in.(*ssa.Phi); !ok {
				break
			}
			nphi++
		}
	} else if prev != nil {
		var pidx int = -1
		for i, p := range b.Preds {
			if p == prev {
				pidx = i
				break
			}
		}
		var vals []Value
		for _, in := range b.Instrs {
			phi, ok := in.(*ssa.Phi)
			if !ok {
				break
			}
			vals = append(vals, e.get(fr, phi.Edges[pidx]))
			nphi++
		}
		for i := 0; i < nphi; i++ {
			fr.regs[b.Instrs[i].(*ssa.Phi)] = vals[i]
		}
	}
	for _, in := range b.Instrs[nphi:] {
		e.steps++
		if e.steps > e.cfg.MaxSteps {
			e.rep.noteInconclusive("steps", "per-path instruction budget exceeded at "+e.where())
			e.end("limit", "step budget")
		}
		e.curInstr = in
		switch x := in.(type) {
		case *ssa.If:
			c := e.get(fr, x.Cond).(*sym.Term)
			if !c.IsConst() {
				if reg := e.ifConvertible(b); reg != nil {
					return e.runIfConverted(fr, b, reg, c), false, nil
				}
			}
			if e.branch(c) {
				return b.Succs[0], false, nil
			}
			return b.Succs[1], false, nil
		case *ssa.Jump:
			return b.Succs[0], false, nil
		case *ssa.Return:
			var rv Value
			switch len(x.Results) {
			case 0:
			case 1:
				rv = e.get(fr, x.Results[0])
			default:
				t := make(Tuple, len(x.Results))
				for i, r := range x.Results {
					t[i] = e.get(fr, r)
				}
				rv = t
			}
			return nil, true, rv
		case *ssa.Panic:
			v := e.get(fr, x.X)
			msg := "explicit panic"
			if ifc, ok := v.(Iface); ok {
				if s, ok := ifc.V.(Str); ok {
					if cs, ok := concreteString(s); ok {
						msg = "panic: " + cs
					}
				}
			}
			if e.catchDepth > 0 {
				panic(&targetPanic{val: v, site: e.where()})
			}
			key := "panic/" + e.siteKey("explicit")
			e.violation(key, "panic", msg, e.ensureModel())
			e.end("panic", msg)
		case *ssa.RunDefers:
			e.runDefers(fr)
		default:
			e.step(fr, in)
		}
	}
	panic("block without terminator")
}

// doCall performs a call described by cc with already evaluated function value and args.
func (e *Exec) doCall(fr *frame, cc *ssa.CallCommon, fv Value, args []Value) Value {
	if cc != nil && cc.IsInvoke() {
		recv := fv.(Iface)
		if recv.T == nil {
			e.definitePanic("nil-iface", "method call on nil interface")
		}
		return e.invokeMethod(recv, cc.Method, args)
	}
	if cc != nil {
		if b, ok := cc.Value.(*ssa.Builtin); ok {
			return e.builtin(fr, b, cc, args)
		}
	}
	cl, ok := fv.(*Closure)
	if !ok || cl == nil {
		e.definitePanic("nil-func", "call of nil function value")
	}
	return e.callFunction(cl.Fn, args, cl.Bind)
}

func (e *Exec) invokeMethod(recv Iface, m *types.Func, args []Value) Value {
	if h := e.opaqueMethod(recv, m, args); h != nil {
		return h()
	}
	fn := e.prog.LookupMethod(recv.T, m.Pkg(), m.Name())
	if fn == nil {
		panic(unsupported(fmt.Sprintf("no method %s on %s", m.Name(), recv.T)))
	}
	full := append([]Value{recv.V}, args...)
	return e.callFunction(fn, full, nil)
}

func (e *Exec) evalCall(fr *frame, cc *ssa.CallCommon) (Value, []Value) {
	args := make([]Value, len(cc.Args))
	for i, a := range cc.Args {
		args[i] = e.get(fr, a)
	}
	if _, ok := cc.Value.(*ssa.Builtin); ok {
		return nil, args
	}
	return e.get(fr, cc.Value), args
}

// ---------------------------------------------------------------- instructions

func (e *Exec) step(fr *frame, in ssa.Instruction) {
	switch x := in.(type) {
	case *ssa.DebugRef:
	case *ssa.Alloc:
		o := e.allocType(x.Type().(*types.Pointer).Elem(), x.Comment)
		fr.regs[x] = Ptr{Obj: o}
	case *ssa.BinOp:
		fr.regs[x] = e.binop(x.Op, e.get(fr, x.X), e.get(fr, x.Y), x.X.Type(), x.Y.Type())
	case *ssa.UnOp:
		fr.regs[x] = e.unop(fr, x)
	case *ssa.Call:
		e.curFrame = fr
		fv, args := e.evalCall(fr, &x.Call)
		r := e.doCall(fr, &x.Call, fv, args)
		e.curFrame = fr
		e.curInstr = in
		if r != nil {
			fr.regs[x] = r
		} else if x.Type() != nil {
			if tup, ok := x.Type().(*types.Tuple); !ok || tup.Len() > 0 {
				fr.regs[x] = e.zeroValue(x.Type())
			}
		}
	case *ssa.Defer:
		fv, args := e.evalCall(fr, &x.Call)
		fr.defers = append(fr.defers, deferred{fn: fv, args: args, call: &x.Call})
	case *ssa.Go:
		fv, args := e.evalCall(fr, &x.Call)
		e.spawn(fr, &x.Call, fv, args)
	case *ssa.ChangeType:
		fr.regs[x] = e.get(fr, x.X)
	case *ssa.Convert:
		fr.regs[x] = e.convert(e.get(fr, x.X), x.X.Type(), x.Type())
	case *ssa.ChangeInterface:
		fr.regs[x] = e.get(fr, x.X)
	case *ssa.MakeInterface:
		fr.regs[x] = Iface{T: x.X.Type(), V: e.get(fr, x.X)}
	case *ssa.TypeAssert:
		fr.regs[x] = e.typeAssert(x, e.get(fr, x.X).(Iface))
	case *ssa.Extract:
		fr.regs[x] = e.get(fr, x.Tuple).(Tuple)[x.Index]
	case *ssa.Field:
		st := x.X.Type().Underlying().(*types.Struct)
		agg := e.get(fr, x.X).(Agg)
		off := fieldOffset(st, x.Field)
		ft := st.Field(x.Field).Type()
		fr.regs[x] = unflatten(ft, agg[off:off+cellsOf(ft)])
	case *ssa.FieldAddr:
		p := e.get(fr, x.X).(Ptr)
		if p.Obj == nil {
			e.definitePanic("nil-deref", "nil pointer dereference (field address)")
		}
		st := x.X.Type().Underlying().(*types.Pointer).Elem().Underlying().(*types.Struct)
		np := p
		np.Off += fieldOffset(st, x.Field)
		fr.regs[x] = np
	case *ssa.IndexAddr:
		fr.regs[x] = e.indexAddr(e.get(fr, x.X), e.get(fr, x.Index).(*sym.Term), x.X.Type(), x.Index.Type())
	case *ssa.Index:
		fr.regs[x] = e.index(e.get(fr, x.X), e.get(fr, x.Index).(*sym.Term), x.X.Type(), x.Index.Type())
	case *ssa.Slice:
		fr.regs[x] = e.sliceOp(fr, x)
	case *ssa.Store:
		e.guardAccess(x.Addr, true)
		e.store(e.get(fr, x.Addr).(Ptr), x.Val.Type(), e.get(fr, x.Val))
	case *ssa.MakeSlice:
		ln := e.get(fr, x.Len).(*sym.Term)
		cp := e.get(fr, x.Cap).(*sym.Term)
		ln = e.toInt64(ln, x.Len.Type())
		cp = e.toInt64(cp, x.Cap.Type())
		limit := e.tb.Const(64, 1<<24)
		e.require(e.tb.BAnd(e.tb.ULe(ln, cp), e.tb.ULe(cp, limit)), "makeslice", "makeslice: len out of range (or > 16 MiB)")
		n := int(e.concretize(ln, "make-len"))
		c := int(e.concretize(cp, "make-cap"))
		elem := x.Type().Underlying().(*types.Slice).Elem()
		e.noteAlloc(c * goSize(elem))
		fr.regs[x] = e.newSliceOf(elem, n, c)
	case *ssa.MakeMap:
		e.nextObj++
		fr.regs[x] = &MapObj{ID: e.nextObj, Epoch: e.epoch}
	case *ssa.MapUpdate:
		e.guardMap(x.Map, true)
		m := e.get(fr, x.Map).(*MapObj)
		if m == nil {
			e.definitePanic("nil-map", "assignment to entry in nil map")
		}
		e.mapUpdate(m, e.get(fr, x.Key), e.get(fr, x.Value))
	case *ssa.Lookup:
		e.guardMap(x.X, false)
		fr.regs[x] = e.lookup(x, e.get(fr, x.X), e.get(fr, x.Index))
	case *ssa.MakeClosure:
		binds := make([]Value, len(x.Bindings))
		for i, b := range x.Bindings {
			binds[i] = e.get(fr, b)
		}
		fr.regs[x] = &Closure{Fn: x.Fn.(*ssa.Function), Bind: binds}
	case *ssa.Range:
		e.guardMap(x.X, false)
		fr.regs[x] = e.rangeInit(e.get(fr, x.X))
	case *ssa.Next:
		fr.regs[x] = e.rangeNext(x, e.get(fr, x.Iter).(*RangeIter))
	case *ssa.MakeChan:
		sz := e.get(fr, x.Size).(*sym.Term)
		e.nextObj++
		fr.regs[x] = &ChanObj{ID: e.nextObj, Cap: int(e.concretize(sz, "chan-size"))}
	case *ssa.Send:
		e.chanSend(e.get(fr, x.Chan).(*ChanObj), e.get(fr, x.X))
	case *ssa.Select:
		fr.regs[x] = e.selectOp(fr, x)
	case *ssa.SliceToArrayPointer:
		s := e.get(fr, x.X).(Slice)
		n := int(x.Type().(*types.Pointer).Elem().Underlying().(*types.Array).Len())
		if s.Len < n {
			e.definitePanic("slice-to-array", "slice to array pointer: length too short")
		}
		fr.regs[x] = Ptr{Obj: s.Obj, Off: s.Off}
	case *ssa.MultiConvert:
		fr.regs[x] = e.convert(e.get(fr, x.X), x.X.Type(), x.Type())
	default:
		panic(unsupported(fmt.Sprintf("instruction %T", in)))
	}
}

func (e *Exec) toInt64(t *sym.Term, typ types.Type) *sym.Term {
	if t.W == 64 {
		return t
	}
	if isSigned(typ) {
		return e.tb.SExt(t, 64)
	}
	return e.tb.ZExt(t, 64)
}

func (e *Exec) noteAlloc(bytes int) {
	if e.cfg.AllocFactor > 0 && bytes > e.cfg.AllocFactor*e.cfg.InputLen+e.cfg.AllocBase {
		key := "alloc/" + e.siteKey("size")
		e.violation(key, "alloc", fmt.Sprintf("allocation of %d bytes for %d input bytes", bytes, e.cfg.InputLen), e.ensureModel())
		if o := e.rep.Obls[key]; o != nil && len(o.Violations) > 0 {
			o.Violations[len(o.Violations)-1].Bytes = bytes
		}
	}
}

func (e *Exec) typeAssert(x *ssa.TypeAssert, v Iface) Value {
	ok := false
	var res Value
	if _, isIface := x.AssertedType.Underlying().(*types.Interface); isIface {
		if v.T != nil {
			ok = types.Implements(v.T, x.AssertedType.Underlying().(*types.Interface))
			if !ok && isOpaqueErr(v) {
				if x.AssertedType.String() == "error" {
					ok = true
				}
			}
		}
		res = v
		if !ok {
			res = Iface{}
		}
	} else {
		ok = v.T != nil && types.Identical(v.T, x.AssertedType)
		if ok {
			res = v.V
		} else {
			res = e.zeroValue(x.AssertedType)
		}
	}
	if x.CommaOk {
		return Tuple{res, e.tb.Bool(ok)}
	}
	if !ok {
		e.definitePanic("type-assert", "interface conversion failed")
	}
	return res
}

func (e *Exec) unop(fr *frame, x *ssa.UnOp) Value {
	v := e.get(fr, x.X)
	switch x.Op {
	case token.MUL:
		e.guardAccess(x.X, false)
		return e.load(v.(Ptr), x.Type())
	case token.NOT:
		return e.tb.Not(v.(*sym.Term))
	case token.SUB:
		if f, ok := v.(Float); ok {
			return -f
		}
		return e.tb.Neg(v.(*sym.Term))
	case token.XOR:
		return e.tb.Not(v.(*sym.Term))
	case token.ARROW:
		return e.chanRecv(v.(*ChanObj), x.CommaOk, x.Type())
	}
	panic(unsupported("unop " + x.Op.String()))
}

func (e *Exec) indexAddr(base Value, idx *sym.Term, bt, it types.Type) Value {
	idx = e.toInt64(idx, it)
	switch b := base.(type) {
	case Slice:
		e.require(e.tb.ULt(idx, e.tb.Const(64, uint64(b.Len))), "index", fmt.Sprintf("index out of range (len %d)", b.Len))
		if idx.IsConst() {
			return Ptr{Obj: b.Obj, Off: b.Off + int(idx.Uint64())*b.Stride}
		}
		return Ptr{Obj: b.Obj, Off: b.Off, Sym: &SymIdx{Idx: idx, Stride: b.Stride, Count: b.Len}}
	case Ptr:
		if b.Obj == nil {
			e.definitePanic("nil-deref", "nil pointer dereference (array index)")
		}
		arr := bt.Underlying().(*types.Pointer).Elem().Underlying().(*types.Array)
		n := int(arr.Len())
		stride := cellsOf(arr.Elem())
		e.require(e.tb.ULt(idx, e.tb.Const(64, uint64(n))), "index", fmt.Sprintf("index out of range (len %d)", n))
		if idx.IsConst() {
			np := b
			np.Off += int(idx.Uint64()) * stride
			return np
		}
		if b.Sym != nil {
			k := int(e.concretize(idx, "nested-index"))
			np := b
			np.Off += k * stride
			return np
		}
		return Ptr{Obj: b.Obj, Off: b.Off, Sym: &SymIdx{Idx: idx, Stride: stride, Count: n}}
	}
	panic(unsupported(fmt.Sprintf("IndexAddr on %T", base)))
}

func (e *Exec) index(base Value, idx *sym.Term, bt, it types.Type) Value {
	idx = e.toInt64(idx, it)
	switch b := base.(type) {
	case Str:
		e.require(e.tb.ULt(idx, e.tb.Const(64, uint64(len(b.B)))), "index", fmt.Sprintf("string index out of range (len %d)", len(b.B)))
		return e.selectTerm(b.B, idx)
	case Agg:
		arr := bt.Underlying().(*types.Array)
		n := int(arr.Len())
		stride := cellsOf(arr.Elem())
		e.require(e.tb.ULt(idx, e.tb.Const(64, uint64(n))), "index", "array index out of range")
		if idx.IsConst() {
			k := int(idx.Uint64())
			return unflatten(arr.Elem(), b[k*stride:(k+1)*stride])
		}
		if stride == 1 {
			ts := make([]*sym.Term, n)
			okAll := true
			for i := range ts {
				t, ok := b[i].(*sym.Term)
				if !ok {
					okAll = false
					break
				}
				ts[i] = t
			}
			if okAll {
				return e.selectTerm(ts, idx)
			}
		}
		k := int(e.concretize(idx, "array-index"))
		return unflatten(arr.Elem(), b[k*stride:(k+1)*stride])
	}
	panic(unsupported(fmt.Sprintf("Index on %T", base)))
}

// selectTerm builds ts[idx] as an ite chain (idx already proven in range).
func (e *Exec) selectTerm(ts []*sym.Term, idx *sym.Term) *sym.Term {
	if idx.IsConst() {
		return ts[idx.Uint64()]
	}
	res := ts[len(ts)-1]
	for i := len(ts) - 2; i >= 0; i-- {
		res = e.tb.Ite(e.tb.Eq(idx, e.tb.Const(idx.W, uint64(i))), ts[i], res)
	}
	return res
}

func (e *Exec) sliceOp(fr *frame, x *ssa.Slice) Value {
	base := e.get(fr, x.X)
	var lo, hi, max *sym.Term
	if x.Low != nil {
		lo = e.toInt64(e.get(fr, x.Low).(*sym.Term), x.Low.Type())
	}
	if x.High != nil {
		hi = e.toInt64(e.get(fr, x.High).(*sym.Term), x.High.Type())
	}
	if x.Max != nil {
		max = e.toInt64(e.get(fr, x.Max).(*sym.Term), x.Max.Type())
	}
	c64 := func(n int) *sym.Term { return e.tb.Const(64, uint64(n)) }
	var obj *Object
	var off, ln, cp, stride int
	isStr := false
	var str Str
	switch b := base.(type) {
	case Slice:
		obj, off, ln, cp, stride = b.Obj, b.Off, b.Len, b.Cap, b.Stride
		if stride == 0 {
			stride = cellsOf(x.X.Type().Underlying().(*types.Slice).Elem())
		}
	case Str:
		isStr, str = true, b
		ln, cp = len(b.B), len(b.B)
	case Ptr:
		if b.Obj == nil {
			e.definitePanic("nil-deref", "slice of nil array pointer")
		}
		arr := x.X.Type().Underlying().(*types.Pointer).Elem().Underlying().(*types.Array)
		obj, off, ln, cp, stride = b.Obj, b.Off, int(arr.Len()), int(arr.Len()), cellsOf(arr.Elem())
		if b.Sym != nil {
			panic(unsupported("slice of symbolic-indexed array pointer"))
		}
	default:
		panic(unsupported(fmt.Sprintf("Slice on %T", base)))
	}
	if lo == nil {
		lo = c64(0)
	}
	if hi == nil {
		hi = c64(ln)
	}
	limit := cp
	if isStr {
		limit = ln
	}
	if max == nil {
		e.require(e.tb.BAnd(e.tb.ULe(hi, c64(limit)), e.tb.ULe(lo, hi)), "slice", fmt.Sprintf("slice bounds out of range (cap %d)", limit))
	} else {
		e.require(e.tb.BAnd(e.tb.ULe(max, c64(limit)), e.tb.ULe(hi, max), e.tb.ULe(lo, hi)), "slice", fmt.Sprintf("slice bounds out of range (cap %d)", limit))
	}
	l := int(e.concretize(lo, "slice-lo"))
	h := int(e.concretize(hi, "slice-hi"))
	if isStr {
		return Str{B: str.B[l:h]}
	}
	newCap := cp - l
	if max != nil {
		m := int(e.concretize(max, "slice-max"))
		newCap = m - l
	}
	if obj == nil {
		return Slice{}
	}
	return Slice{Obj: obj, Off: off + l*stride, Len: h - l, Cap: newCap, Stride: stride}
}

// ---------------------------------------------------------------- lock-discipline monitor

func (e *Exec) lockHeld(write bool) bool {
	for _, st := range e.lockState {
		if st == -1 || (!write && st > 0) {
			return true
		}
	}
	return false
}

func (e *Exec) guardViolation(what string, write bool) {
	kind := "read"
	if write {
		kind = "write"
	}
	key := "lock/" + e.siteKey(kind)
	o := e.rep.obl(key)
	if e.lockHeld(write) {
		o.Folded++
		return
	}
	e.violation(key, "lock", what+" without holding the lock ("+kind+")", e.ensureModel())
}

// guardAccess checks loads/stores through FieldAddr of a guarded field or of a guarded record type.
func (e *Exec) guardAccess(addr ssa.Value, write bool) {
	g := e.cfg.LockGuard
	if g == nil || e.guardDepth == 0 {
		return
	}
	fa, ok := addr.(*ssa.FieldAddr)
	if !ok {
		return
	}
	pt, ok := fa.X.Type().Underlying().(*types.Pointer)
	if !ok {
		return
	}
	st, ok := pt.Elem().Underlying().(*types.Struct)
	if !ok {
		return
	}
	tname := pt.Elem().String()
	fname := st.Field(fa.Field).Name()
	if "*"+tname == g.ScopeRecv {
		for _, f := range g.Fields {
			if f == fname {
				e.guardViolation("access to "+tname+"."+fname, write)
			}
		}
		return
	}
	if tname == g.RecordType {
		e.guardViolation("access to "+tname+"."+fname, write)
	}
}

func (e *Exec) guardMap(m ssa.Value, write bool) {
	g := e.cfg.LockGuard
	if g == nil || e.guardDepth == 0 {
		return
	}
	if m.Type().String() == g.MapType {
		e.guardViolation("access to map "+g.MapType, write)
	}
}

// noteBlock records basic-block coverage for functions of the module under test (not the harness files, not dependencies).
func (e *Exec) noteBlock(b *ssa.BasicBlock) {
	fn := b.Parent()
	if fn == nil || fn.Pkg == nil || fn.Synthetic != "" || !strings.HasPrefix(fn.Pkg.Pkg.Path(), "github.com/TheManticoreProject/Manticore") {
		return
	}
	name := fn.String()
	bc := e.rep.Blocks[name]
	if bc == nil {
		if f := e.prog.Fset.Position(fn.Pos()).Filename; strings.Contains(f, "zz_verif_") {
			e.rep.Blocks[name] = &BlockCov{Total: -1}
			return
		}
		bc = &BlockCov{Total: len(fn.Blocks), Hit: map[int]bool{}, Line: map[int]int{}}
		for _, blk := range fn.Blocks {
			for _, in := range blk.Instrs {
				if p := in.Pos(); p.IsValid() {
					bc.Line[blk.Index] = e.prog.Fset.Position(p).Line
					break
				}
			}
		}
		e.rep.Blocks[name] = bc
	}
	if bc.Total < 0 {
		return
	}
	bc.Hit[b.Index] = true
}

// runBody executes fn from its source although a model is registered for it (the model covers only part of its domain).
func (e *Exec) runBody(fn *ssa.Function, args []Value) Value {
	e.skipIntrinsic = fn
	return e.callFunction(fn, args, nil)
}

// differsFrom: "some symbolic input byte / word has a value other than in m, and (for bytes) is not zero either".
func (e *Exec) differsFrom(m *sym.Model) *sym.Term {
	var alts []*sym.Term
	n := 0
	for _, in := range e.inputs {
		if _, fixed := e.cfg.Concrete[in.Name]; fixed {
			continue
		}
		switch in.Kind {
		case "bytes", "string":
			for i := 0; i < in.N && n < 64; i++ {
				name := fmt.Sprintf("%s[%d]", in.Name, i)
				v := e.tb.Var(name, 8)
				old := big.NewInt(0)
				if x, ok := m.Vars[name]; ok {
					old = x
				}
				alts = append(alts, e.tb.BAnd(e.tb.Not(e.tb.Eq(v, e.tb.ConstBig(8, old))), e.tb.Not(e.tb.Eq(v, e.tb.Const(8, 0)))))
				n++
			}
		}
	}
	if len(alts) == 0 {
		return nil
	}
	return e.tb.BOr(alts...)
}
