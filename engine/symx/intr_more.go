package symx

import (
	"fmt"
	"go/types"
	"math/big"
	"sync"

	"golang.org/x/tools/go/ssa"
	"verif/engine/sym"
)

// opaqueObj is an engine-defined object behind an interface (cipher.Block, cipher.BlockMode, hash.Hash …).
type opaqueObj struct {
	kind  string
	key   []*sym.Term
	iv    []*sym.Term
	block Iface
	buf   []*sym.Term
	name  string
}

var opaqueTypes = map[string]types.Type{}
var opaqueMu sync.Mutex

// lockYield: under Config.PreemptAtLocks a goroutine of the code under test gives the others a turn before every mutex
// acquire and after every release, so that two critical sections of one goroutine are separated by the other's.
func (e *Exec) lockYield() {
	if e.cfg.PreemptAtLocks && e.cur != nil {
		e.runPendingTasks()
	}
}

func opaqueType(name string) types.Type {
	opaqueMu.Lock()
	defer opaqueMu.Unlock()
	if t, ok := opaqueTypes[name]; ok {
		return t
	}
	t := types.NewNamed(types.NewTypeName(0, nil, "verif."+name, nil), types.NewStruct(nil, nil), nil)
	opaqueTypes[name] = t
	return t
}

func (e *Exec) freshVar(prefix string, w int) *sym.Term {
	e.randCtr++
	return e.tb.Var(fmt.Sprintf("%s!%d", prefix, e.randCtr), w)
}

// parseUnsigned models strconv.ParseUint for base 10/16 on a concrete-length string.
// Returns (value 64-bit, ok-flag decided by forking).
func (e *Exec) parseUnsigned(s []*sym.Term, base int, bitSize int) (*sym.Term, bool, string) {
	tb := e.tb
	if len(s) == 0 {
		return tb.Const(64, 0), false, "invalid syntax"
	}
	if bitSize == 0 {
		bitSize = 64
	}
	maxDigits := 19
	if base == 16 {
		maxDigits = 15
	}
	// leading zeros beyond maxDigits must be zeros for the value to be representable in our 64-bit accumulation
	val := tb.Const(64, 0)
	var valid []*sym.Term
	for i, c := range s {
		var d, ok *sym.Term
		if base == 10 {
			ok = tb.BAnd(tb.ULe(tb.Const(8, '0'), c), tb.ULe(c, tb.Const(8, '9')))
			d = tb.Sub(c, tb.Const(8, '0'))
		} else if base == 16 {
			d, ok = e.hexVal(c)
		} else {
			panic(unsupported(fmt.Sprintf("ParseUint base %d", base)))
		}
		valid = append(valid, ok)
		if len(s)-i > maxDigits {
			// this digit would overflow our accumulator unless zero: fork
			if !e.branch(tb.BOr(tb.Not(ok), tb.Eq(d, tb.Const(8, 0)))) {
				// non-zero digit at a position >= 10^19: certainly out of range for every bitSize
				if e.branch(tb.BAnd(valid...)) {
					// remaining characters may still be invalid -> syntax error takes precedence
					rest := []*sym.Term{}
					for _, c2 := range s[i+1:] {
						if base == 10 {
							rest = append(rest, tb.BAnd(tb.ULe(tb.Const(8, '0'), c2), tb.ULe(c2, tb.Const(8, '9'))))
						} else {
							_, o2 := e.hexVal(c2)
							rest = append(rest, o2)
						}
					}
					if e.branch(tb.BAnd(rest...)) {
						return tb.ConstBig(64, maskBig(bitSize)), false, "value out of range"
					}
				}
				return tb.Const(64, 0), false, "invalid syntax"
			}
			continue
		}
		val = tb.Add(tb.Mul(val, tb.Const(64, uint64(base))), tb.ZExt(d, 64))
	}
	if !e.branch(tb.BAnd(valid...)) {
		return tb.Const(64, 0), false, "invalid syntax"
	}
	if bitSize < 64 {
		max := tb.ConstBig(64, maskBig(bitSize))
		if e.branch(tb.ULt(max, val)) {
			return max, false, "value out of range"
		}
	}
	return val, true, ""
}

// parseUnsignedBase0 is strconv.ParseUint's base-0 prefix detection (after ParseInt has removed the sign): "0x"/"0X" followed
// by at least one more byte selects base 16, no leading '0' selects base 10, the single byte "0" is zero. Binary and octal
// prefixes and digit-separating underscores are outside the model (unsupported, hence INCONCLUSIVE, never a verdict).
func (e *Exec) parseUnsignedBase0(s []*sym.Term, bitSize int) (*sym.Term, bool, string) {
	tb := e.tb
	if len(s) == 0 {
		return tb.Const(64, 0), false, "invalid syntax"
	}
	var us []*sym.Term
	for _, c := range s {
		us = append(us, tb.Eq(c, tb.Const(8, '_')))
	}
	if e.branch(tb.BOr(us...)) {
		panic(unsupported("ParseInt/ParseUint base 0 with an underscore"))
	}
	if !e.branch(tb.Eq(s[0], tb.Const(8, '0'))) {
		return e.parseUnsigned(s, 10, bitSize)
	}
	if len(s) == 1 {
		return tb.Const(64, 0), true, ""
	}
	if len(s) >= 3 && e.branch(tb.Eq(tb.Or(s[1], tb.Const(8, 0x20)), tb.Const(8, 'x'))) {
		return e.parseUnsigned(s[2:], 16, bitSize)
	}
	panic(unsupported("ParseInt/ParseUint base 0 with a binary or octal prefix"))
}

func init() {
	reg := func(name string, f intrinsic) { intrinsics[name] = f }
	str := func(v Value) Str { return v.(Str) }

	reg("strconv.ParseUint", func(e *Exec, fn *ssa.Function, a []Value) Value {
		base := int(e.mustConcreteInt(a[1], "ParseUint base"))
		bits := int(e.mustConcreteInt(a[2], "ParseUint bitSize"))
		s := str(a[0])
		if base == 0 {
			v, ok, msg := e.parseUnsignedBase0(s.B, bits)
			if !ok {
				return Tuple{v, e.errorValue(e.strConst("strconv.ParseUint: parsing: " + msg))}
			}
			return Tuple{v, Iface{}}
		}
		if d, ok := e.decimalOrigin(s.B); ok && base == 10 && !d.signed {
			// the whole string is the %d rendering of an unsigned integer of this run: parse(print(v)) = v
			e.rep.Stubs["strconv.ParseUint applied to a string produced by the %d model of the same run: result taken as the rendered integer (parse(print(v)) = v)"]++
			v := e.tb.ZExt(d.val, 64)
			if bits > 0 && bits < 64 && d.val.W > bits {
				max := e.tb.ConstBig(64, maskBig(bits))
				if e.branch(e.tb.ULt(max, v)) {
					return Tuple{max, e.errorValue(e.strConst("strconv.ParseUint: value out of range"))}
				}
			}
			return Tuple{v, Iface{}}
		}
		v, ok, msg := e.parseUnsigned(s.B, base, bits)
		if !ok {
			return Tuple{v, e.errorValue(e.strConst("strconv.ParseUint: parsing: " + msg))}
		}
		return Tuple{v, Iface{}}
	})
	parseInt := func(e *Exec, s Str, base, bits int) Value {
		tb := e.tb
		if bits == 0 {
			bits = 64
		}
		if d, ok := e.decimalOrigin(s.B); ok && base == 10 && bits == 64 && d.signed && d.val.W == 64 {
			// the whole string is the %d rendering of d.val: parse(print(v)) = v (strconv/fmt contract)
			e.rep.Stubs["strconv.ParseInt applied to a string produced by the %d model of the same run: result taken as the rendered integer (parse(print(v)) = v)"]++
			return Tuple{d.val, Iface{}}
		}
		if len(s.B) == 0 {
			return Tuple{tb.Const(64, 0), e.errorValue(e.strConst("strconv.ParseInt: parsing \"\": invalid syntax"))}
		}
		neg := false
		body := s.B
		if e.branch(tb.Eq(body[0], tb.Const(8, '-'))) {
			neg = true
			body = body[1:]
		} else if e.branch(tb.Eq(body[0], tb.Const(8, '+'))) {
			body = body[1:]
		}
		var v *sym.Term
		var ok bool
		var msg string
		if base == 0 {
			v, ok, msg = e.parseUnsignedBase0(body, 64)
		} else {
			v, ok, msg = e.parseUnsigned(body, base, 64)
		}
		if !ok {
			if msg == "value out of range" {
				lim := new(bigInt).Lsh(bigOne, uint(bits-1))
				if neg {
					return Tuple{tb.ConstBig(64, new(bigInt).Neg(lim)), e.errorValue(e.strConst("strconv.ParseInt: value out of range"))}
				}
				return Tuple{tb.ConstBig(64, new(bigInt).Sub(lim, bigOne)), e.errorValue(e.strConst("strconv.ParseInt: value out of range"))}
			}
			return Tuple{tb.Const(64, 0), e.errorValue(e.strConst("strconv.ParseInt: invalid syntax"))}
		}
		cutoff := tb.ConstBig(64, new(bigInt).Lsh(bigOne, uint(bits-1)))
		if !neg {
			if e.branch(tb.ULe(cutoff, v)) {
				return Tuple{tb.Sub(cutoff, tb.Const(64, 1)), e.errorValue(e.strConst("strconv.ParseInt: value out of range"))}
			}
			return Tuple{v, Iface{}}
		}
		if e.branch(tb.ULt(cutoff, v)) {
			return Tuple{tb.Neg(cutoff), e.errorValue(e.strConst("strconv.ParseInt: value out of range"))}
		}
		return Tuple{tb.Neg(v), Iface{}}
	}
	reg("strconv.ParseInt", func(e *Exec, fn *ssa.Function, a []Value) Value {
		base := int(e.mustConcreteInt(a[1], "ParseInt base"))
		bits := int(e.mustConcreteInt(a[2], "ParseInt bitSize"))
		return parseInt(e, str(a[0]), base, bits)
	})
	reg("strconv.Atoi", func(e *Exec, fn *ssa.Function, a []Value) Value {
		return parseInt(e, str(a[0]), 10, 64)
	})

	// ---- randomness: arbitrary values
	randU := func(w int) intrinsic {
		return func(e *Exec, fn *ssa.Function, a []Value) Value { return e.freshVar("rand", w) }
	}
	for _, p := range []string{"math/rand", "math/rand/v2"} {
		reg(p+".Uint32", randU(32))
		reg(p+".Uint64", randU(64))
		reg(p+".Int63", func(e *Exec, fn *ssa.Function, a []Value) Value {
			return e.tb.ZExt(e.freshVar("rand", 63), 64)
		})
		reg(p+".Int31", func(e *Exec, fn *ssa.Function, a []Value) Value {
			return e.tb.ZExt(e.freshVar("rand", 31), 32)
		})
		reg(p+".Int", func(e *Exec, fn *ssa.Function, a []Value) Value {
			return e.tb.ZExt(e.freshVar("rand", 63), 64)
		})
		reg(p+".Intn", func(e *Exec, fn *ssa.Function, a []Value) Value {
			n := a[0].(*sym.Term)
			e.require(e.tb.SLt(e.tb.Const(64, 0), n), "rand", "invalid argument to Intn")
			v := e.freshVar("rand", 64)
			e.assume(e.tb.ULt(v, n))
			return v
		})
		reg(p+".IntN", intrinsics[p+".Intn"])
		reg(p+".Seed", func(e *Exec, fn *ssa.Function, a []Value) Value { return nil })
	}
	fillRandom := func(e *Exec, s Slice) {
		for i := 0; i < s.Len; i++ {
			e.setCell(s.Obj, s.Off+i, e.freshVar("rand", 8))
		}
	}
	reg("crypto/rand.Read", func(e *Exec, fn *ssa.Function, a []Value) Value {
		s := a[0].(Slice)
		fillRandom(e, s)
		return Tuple{e.tb.Const(64, uint64(s.Len)), Iface{}}
	})
	reg("math/rand.Read", intrinsics["crypto/rand.Read"])

	// ---- sync: single-threaded model; lock state tracked for C17
	for _, n := range []string{"(*sync.Mutex).Lock", "(*sync.RWMutex).Lock"} {
		reg(n, func(e *Exec, fn *ssa.Function, a []Value) Value {
			p := a[0].(Ptr)
			e.lockYield()
			if e.lockState[p.Obj] != 0 {
				// held by another goroutine that is blocked: wait for it; nobody left to release it = deadlock
				if !e.block(func() bool { return e.lockState[p.Obj] == 0 }, false) {
					e.end("limit", "lock acquired twice (self-deadlock) at "+e.where())
				}
			}
			e.lockState[p.Obj] = -1
			e.lockEvents = append(e.lockEvents, "lock")
			return nil
		})
	}
	for _, n := range []string{"(*sync.Mutex).Unlock", "(*sync.RWMutex).Unlock"} {
		reg(n, func(e *Exec, fn *ssa.Function, a []Value) Value {
			p := a[0].(Ptr)
			if e.lockState[p.Obj] != -1 {
				e.definitePanic("sync", "unlock of unlocked mutex")
			}
			e.lockState[p.Obj] = 0
			e.lockYield()
			return nil
		})
	}
	reg("(*sync.RWMutex).RLock", func(e *Exec, fn *ssa.Function, a []Value) Value {
		p := a[0].(Ptr)
		e.lockYield()
		if e.lockState[p.Obj] < 0 {
			// write-locked by another goroutine that is parked: wait for it
			if !e.block(func() bool { return e.lockState[p.Obj] >= 0 }, false) {
				e.end("limit", "read lock while write-locked (self-deadlock) at "+e.where())
			}
		}
		e.lockState[p.Obj]++
		return nil
	})
	reg("(*sync.RWMutex).RUnlock", func(e *Exec, fn *ssa.Function, a []Value) Value {
		p := a[0].(Ptr)
		if e.lockState[p.Obj] <= 0 {
			e.definitePanic("sync", "RUnlock of unlocked RWMutex")
		}
		e.lockState[p.Obj]--
		e.lockYield()
		return nil
	})
	// sync.WaitGroup: a counter per object; Wait blocks until it is zero
	wgKey := func(v Value) string { p := v.(Ptr); return fmt.Sprintf("%p+%d", p.Obj, p.Off) }
	reg("(*sync.WaitGroup).Add", func(e *Exec, fn *ssa.Function, a []Value) Value {
		if e.waitGroups == nil {
			e.waitGroups = map[string]int{}
		}
		e.waitGroups[wgKey(a[0])] += int(e.mustConcreteInt(a[1], "WaitGroup.Add delta"))
		if e.waitGroups[wgKey(a[0])] < 0 {
			e.definitePanic("sync", "negative WaitGroup counter")
		}
		return nil
	})
	reg("(*sync.WaitGroup).Done", func(e *Exec, fn *ssa.Function, a []Value) Value {
		if e.waitGroups == nil {
			e.waitGroups = map[string]int{}
		}
		e.waitGroups[wgKey(a[0])]--
		if e.waitGroups[wgKey(a[0])] < 0 {
			e.definitePanic("sync", "negative WaitGroup counter")
		}
		return nil
	})
	reg("(*sync.WaitGroup).Wait", func(e *Exec, fn *ssa.Function, a []Value) Value {
		k := wgKey(a[0])
		if !e.block(func() bool { return e.waitGroups[k] <= 0 }, false) {
			e.end("limit", "WaitGroup.Wait blocks forever (no goroutine left that could call Done) at "+e.where())
		}
		return nil
	})

	// ---- net.IP.Equal, exactly as the standard library defines it
	reg("(net.IP).Equal", func(e *Exec, fn *ssa.Function, a []Value) Value {
		x, y := a[0].(Slice), a[1].(Slice)
		bs := func(s Slice) []*sym.Term {
			if s.Len == 0 {
				return nil
			}
			return e.bytesOf(s)
		}
		bx, by := bs(x), bs(y)
		eq := func(p, q []*sym.Term) *sym.Term { return e.strEq(Str{p}, Str{q}) }
		v4in6 := e.strConst("\x00\x00\x00\x00\x00\x00\x00\x00\x00\x00\xff\xff").B
		switch {
		case len(bx) == len(by):
			return eq(bx, by)
		case len(bx) == 4 && len(by) == 16:
			return e.tb.BAnd(eq(by[:12], v4in6), eq(bx, by[12:]))
		case len(bx) == 16 && len(by) == 4:
			return e.tb.BAnd(eq(bx[:12], v4in6), eq(bx[12:], by))
		}
		return e.tb.False
	})

	// ---- AES as an uninterpreted permutation pair, CBC per SP 800-38A
	reg("crypto/aes.NewCipher", func(e *Exec, fn *ssa.Function, a []Value) Value {
		k := a[0].(Slice)
		if k.Len != 16 && k.Len != 24 && k.Len != 32 {
			return Tuple{Iface{}, e.errorValue(e.strConst("crypto/aes: invalid key size"))}
		}
		return Tuple{Iface{T: opaqueType("aesBlock"), V: &opaqueObj{kind: "aes", key: e.bytesOf(k)}}, Iface{}}
	})
	reg("crypto/cipher.NewCBCEncrypter", func(e *Exec, fn *ssa.Function, a []Value) Value {
		iv := a[1].(Slice)
		bs := e.blockSize(a[0].(Iface))
		if iv.Len != bs {
			panic(&targetPanic{val: e.strConst("cipher.NewCBCEncrypter: IV length must equal block size"), site: e.where()})
		}
		return Iface{T: opaqueType("cbcEnc"), V: &opaqueObj{kind: "cbc-enc", block: a[0].(Iface), iv: e.bytesOf(iv)}}
	})
	reg("crypto/cipher.NewCBCDecrypter", func(e *Exec, fn *ssa.Function, a []Value) Value {
		iv := a[1].(Slice)
		bs := e.blockSize(a[0].(Iface))
		if iv.Len != bs {
			panic(&targetPanic{val: e.strConst("cipher.NewCBCDecrypter: IV length must equal block size"), site: e.where()})
		}
		return Iface{T: opaqueType("cbcDec"), V: &opaqueObj{kind: "cbc-dec", block: a[0].(Iface), iv: e.bytesOf(iv)}}
	})
}

type bigInt = big.Int

var bigOne = big.NewInt(1)

func maskBig(bits int) *bigInt {
	m := new(bigInt).Lsh(bigOne, uint(bits))
	return m.Sub(m, bigOne)
}

func (e *Exec) blockSize(b Iface) int {
	if o, ok := b.V.(*opaqueObj); ok && o.kind == "aes" {
		return 16
	}
	if o, ok := b.V.(*opaqueObj); ok && o.kind == "des" {
		return 8
	}
	r := e.invokeByName(b, "BlockSize", nil)
	return int(e.mustConcreteInt(r, "BlockSize"))
}

// invokeByName calls a method of the interface value by name.
func (e *Exec) invokeByName(recv Iface, name string, args []Value) Value {
	if o, ok := recv.V.(*opaqueObj); ok {
		return e.opaqueCall(o, name, args)
	}
	fn := e.findMethod(recv.T, name)
	if fn == nil {
		panic(unsupported("no method " + name + " on " + recv.T.String()))
	}
	return e.callFunction(fn, append([]Value{recv.V}, args...), nil)
}

func (e *Exec) blockEncrypt(b Iface, in []*sym.Term, decrypt bool) []*sym.Term {
	if o, ok := b.V.(*opaqueObj); ok && o.kind == "aes" {
		return e.aesBlock(o.key, in, decrypt)
	}
	if o, ok := b.V.(*opaqueObj); ok && o.kind == "des" {
		return e.desBlock(o.key, in, decrypt)
	}
	src := e.newByteSlice(in)
	dst := e.newByteSlice(make([]*sym.Term, len(in)))
	for i := range in {
		dst.Obj.Cells[i] = e.tb.Const(8, 0)
	}
	name := "Encrypt"
	if decrypt {
		name = "Decrypt"
	}
	e.invokeByName(b, name, []Value{dst, src})
	return e.bytesOf(dst)
}

// aesBlock: E and D are uninterpreted functions of (key, block); D(E(x)) and E(D(x)) rewrite to x.
func (e *Exec) aesBlock(key, in []*sym.Term, decrypt bool) []*sym.Term {
	tb := e.tb
	k := tb.Concat(key...)
	x := tb.Concat(in...)
	name, inv := fmt.Sprintf("AES_E_%d", len(key)*8), fmt.Sprintf("AES_D_%d", len(key)*8)
	if decrypt {
		name, inv = inv, name
	}
	var whole *sym.Term
	if x.Op == sym.OpUF && x.Name == inv && x.Args[0] == k {
		whole = x.Args[1]
	} else {
		whole = tb.UF(name, 128, k, x)
	}
	out := make([]*sym.Term, 16)
	for i := 0; i < 16; i++ {
		out[i] = tb.Extract(whole, 127-8*i, 120-8*i)
	}
	return out
}

func (e *Exec) opaqueCall(o *opaqueObj, name string, args []Value) Value {
	if r, ok := e.opaqueCrypto(o, name, args); ok {
		return r
	}
	switch o.kind {
	case "aes":
		switch name {
		case "BlockSize":
			return e.tb.Const(64, 16)
		case "Encrypt", "Decrypt":
			dst, src := args[0].(Slice), args[1].(Slice)
			if src.Len < 16 {
				panic(&targetPanic{val: e.strConst("crypto/aes: input not full block"), site: e.where()})
			}
			if dst.Len < 16 {
				panic(&targetPanic{val: e.strConst("crypto/aes: output not full block"), site: e.where()})
			}
			out := e.aesBlock(o.key, e.bytesOf(Slice{Obj: src.Obj, Off: src.Off, Len: 16, Cap: 16, Stride: 1}), name == "Decrypt")
			for i, t := range out {
				e.setCell(dst.Obj, dst.Off+i, t)
			}
			return nil
		}
	case "cbc-enc", "cbc-dec":
		switch name {
		case "BlockSize":
			return e.tb.Const(64, uint64(len(o.iv)))
		case "CryptBlocks":
			dst, src := args[0].(Slice), args[1].(Slice)
			bs := len(o.iv)
			if src.Len%bs != 0 {
				panic(&targetPanic{val: e.strConst("crypto/cipher: input not full blocks"), site: e.where()})
			}
			if dst.Len < src.Len {
				panic(&targetPanic{val: e.strConst("crypto/cipher: output smaller than input"), site: e.where()})
			}
			var in []*sym.Term
			if src.Len > 0 {
				in = e.bytesOf(src)
			}
			prev := o.iv
			var out []*sym.Term
			for i := 0; i+bs <= len(in); i += bs {
				blk := in[i : i+bs]
				if o.kind == "cbc-enc" {
					x := make([]*sym.Term, bs)
					for j := range x {
						x[j] = e.tb.Xor(blk[j], prev[j])
					}
					c := e.blockEncrypt(o.block, x, false)
					out = append(out, c...)
					prev = c
				} else {
					d := e.blockEncrypt(o.block, blk, true)
					for j := range d {
						out = append(out, e.tb.Xor(d[j], prev[j]))
					}
					prev = blk
				}
			}
			o.iv = prev
			for i, t := range out {
				e.setCell(dst.Obj, dst.Off+i, t)
			}
			return nil
		}
	}
	panic(unsupported("opaque " + o.kind + " method " + name))
}
