package symx

import (
	"fmt"
	"math/big"
	"sort"
	"strings"
	"time"

	"golang.org/x/tools/go/ssa"
	"verif/engine/sym"
)

// Decision is one resolved choice point of a path.
type Decision struct {
	Alt int
	Val *big.Int // for value concretisation
}

type workItem struct {
	prefix []Decision
	model  *sym.Model
}

// pathEnd is thrown (Go panic) to finish the current path.
type pathEnd struct {
	kind string // "done", "infeasible", "assume", "unsupported", "limit", "panic"
	msg  string
}

// targetPanic is a Go-level panic of the program under analysis.
type targetPanic struct {
	val  Value
	site string
}

// Config of one harness instance.
type Config struct {
	Params         map[string]int
	Unwind         int   // max visits of one block per frame activation
	MaxSteps       int64 // per path
	MaxPaths       int
	MaxDepth       int
	ConcMax        int // max distinct values in a concretisation
	ConcSample     int // if > 0: follow only this many values of a concretised slice bound / length (a stated sampling: the obligations at the site itself are decided for every value before the split)
	TimeoutMs      int
	Abstract       map[string]string // function full name -> UF symbol
	Summarize      map[string]bool   // functions replaced by pure-callee summaries
	Concrete       map[string]string // replay-mode concrete inputs (co-simulation)
	Deadline       time.Time
	AllocFactor    int // C07: allocation bound factor (0 = off)
	AllocBase      int
	InputLen       int
	LockGuard      *LockGuard
	CheckPrefix    []string // when set, only harness checks whose id starts with one of these are decided (others are skipped, not assumed)
	LossyFmt       bool     // decimal/hex rendering of symbolic integers yields a placeholder (totality harnesses only)
	FixedClock     bool     // time.Now returns concrete instants one second apart (harnesses in which only the order of instants matters)
	PreemptAtLocks bool     // goroutines yield before every mutex acquire and after every release (the schedule that separates critical sections)
}

type Exec struct {
	execExtra
	tb     *sym.Table
	solver *sym.Solver
	prog   *ssa.Program
	bytes  [256]*sym.Term

	pc     []*sym.Term
	pcSet  map[int]bool
	model  *sym.Model
	prefix []Decision
	pmodel *sym.Model
	trace  []Decision
	pos    int
	work   []workItem

	epoch   int
	undo    []func()
	globals map[*ssa.Global]*Object
	inited  map[*ssa.Package]bool
	nextObj int

	cfg   *Config
	rep   *Report
	steps int64
	depth int

	qcache map[string]qres

	catchDepth  int
	inputs      []InputRec
	inputSeen   map[string]bool
	lockState   map[*Object]int // sync mutex model: 0 free, -1 write, >0 readers
	harness     *ssa.Function
	fninfo      map[*ssa.Function]*fnInfo
	summaries   map[*ssa.Function]*summary
	curInstr    ssa.Instruction
	covers      map[string]bool
	timeNow     int
	randCtr     int
	ifconvOK    map[*ssa.BasicBlock]*ifRegion
	lockEvents  []string
	lastNow     Value
	decOrigin   map[**sym.Term]decInfo
	b64Origin   map[string][]*sym.Term
	guardDepth  int
	sums        map[string]*fnSummary
	guard       []*sym.Term
	udpSocks    map[*Object]*udpSock
	udpNextPort int
	syncMaps    map[*Object]map[int]*MapObj
	onceDone    map[*Object]map[int]bool
}

type qres struct {
	r sym.Result
	m *sym.Model
}

// LockGuard configures the lock-discipline monitor: inside methods whose receiver is ScopeRecv, every access to
// the listed fields of the receiver, to values of MapType and to cells of RecordType requires the lock
// (a read lock or the write lock for loads, the write lock for stores).
type LockGuard struct {
	ScopeRecv  string   `json:"scope_recv"`
	Fields     []string `json:"fields"`
	RecordType string   `json:"record_type"`
	MapType    string   `json:"map_type"`
}

// InputRec describes one nondet input (for replay files).
type InputRec struct {
	Name string
	Kind string // u8,u16,u32,u64,i64,int,bool,bytes,string
	N    int
}

func (e *Exec) end(kind, msg string) {
	panic(pathEnd{kind, msg})
}

// ---------------------------------------------------------------- solver access

func (e *Exec) check(extra ...*sym.Term) (sym.Result, *sym.Model) {
	as := make([]*sym.Term, 0, len(e.pc)+len(extra))
	as = append(as, e.pc...)
	nBase := len(e.pc)
	for _, x := range extra {
		if x.IsFalse() {
			return sym.Unsat, nil
		}
		if x.IsTrue() {
			continue
		}
		as = append(as, x)
	}
	ids := make([]int, len(as))
	for i, a := range as {
		ids[i] = a.ID
	}
	sort.Ints(ids)
	var sb strings.Builder
	for _, id := range ids {
		fmt.Fprintf(&sb, "%d,", id)
	}
	k := sb.String()
	if r, ok := e.qcache[k]; ok {
		e.rep.CacheHits++
		return r.r, r.m
	}
	if !e.cfg.Deadline.IsZero() && time.Now().After(e.cfg.Deadline) {
		e.end("limit", "instance deadline exceeded")
	}
	// large queries: a handful of concrete candidate assignments may already satisfy them
	// (a satisfying assignment is a SAT verdict however it was found; unsat always comes from the solver)
	total := 0
	for _, a := range as {
		total += a.Size
	}
	if total > 3000 {
		if m := e.quickSat(as); m != nil {
			e.rep.QuickSat++
			e.qcache[k] = qres{sym.Sat, m}
			return sym.Sat, m
		}
	}
	r, m := e.solver.CheckInc(as, nBase, true)
	if r == sym.Sat && m != nil {
		// validate the model against our own evaluator (guards the encoding)
		memo := map[int]*big.Int{}
		for _, a := range as {
			v, ok := e.tb.Eval(a, m, memo)
			if ok && v.Sign() == 0 {
				e.rep.noteInconclusive("model-mismatch", "solver model does not satisfy assertion under engine evaluator: "+a.String())
				r = sym.Unknown
				m = nil
				break
			}
		}
	}
	e.qcache[k] = qres{r, m}
	return r, m
}

func (e *Exec) addPC(t *sym.Term) {
	if t.IsTrue() {
		return
	}
	if t.Op == sym.OpBAnd {
		for _, a := range t.Args {
			e.addPC(a)
		}
		return
	}
	if e.pcSet[t.ID] {
		return
	}
	e.pcSet[t.ID] = true
	e.pc = append(e.pc, t)
	if e.model != nil {
		v, ok := e.tb.Eval(t, e.model, map[int]*big.Int{})
		if !ok || v.Sign() == 0 {
			e.model = nil
		}
	}
}

func (e *Exec) evalModel(t *sym.Term) (*big.Int, bool) {
	if e.model == nil {
		return nil, false
	}
	return e.tb.Eval(t, e.model, map[int]*big.Int{})
}

// ensureModel returns a model of the current path condition (nil if unknown).
func (e *Exec) ensureModel() *sym.Model {
	if e.model != nil {
		return e.model
	}
	r, m := e.check()
	if r == sym.Sat {
		e.model = m
	}
	return e.model
}

// ---------------------------------------------------------------- decisions

func (e *Exec) takePrefix() (Decision, bool) {
	if e.pos < len(e.prefix) {
		d := e.prefix[e.pos]
		e.pos++
		e.trace = append(e.trace, d)
		return d, true
	}
	return Decision{}, false
}

func (e *Exec) afterPrefixStep() {
	if e.pos == len(e.prefix) && e.pmodel != nil {
		// the stored model satisfies the path condition reached by the prefix
		m := e.pmodel
		e.pmodel = nil
		ok := true
		memo := map[int]*big.Int{}
		for _, a := range e.pc {
			v, good := e.tb.Eval(a, m, memo)
			if !good || v.Sign() == 0 {
				ok = false
				break
			}
		}
		if ok {
			e.model = m
		}
	}
}

func (e *Exec) pushAlt(d Decision, m *sym.Model) {
	p := make([]Decision, len(e.trace)+1)
	copy(p, e.trace)
	p[len(e.trace)] = d
	e.work = append(e.work, workItem{p, m})
}

// branch forks on a boolean term; returns the side taken on this path.
func (e *Exec) branch(c *sym.Term) bool {
	if c.IsConst() {
		return c.IsTrue()
	}
	nc := e.tb.Not(c)
	if e.pcSet[c.ID] {
		return true
	}
	if e.pcSet[nc.ID] {
		return false
	}
	if d, ok := e.takePrefix(); ok {
		taken := d.Alt == 1
		if taken {
			e.addPC(c)
		} else {
			e.addPC(nc)
		}
		e.afterPrefixStep()
		return taken
	}
	e.rep.Branches++
	var tFeas, fFeas bool
	var tModel, fModel *sym.Model
	if v, ok := e.evalModel(c); ok {
		if v.Sign() != 0 {
			tFeas, tModel = true, e.model
			r, m := e.check(nc)
			fFeas, fModel = r != sym.Unsat, m
			if r == sym.Unknown {
				e.rep.UnknownBranches++
			}
		} else {
			fFeas, fModel = true, e.model
			r, m := e.check(c)
			tFeas, tModel = r != sym.Unsat, m
			if r == sym.Unknown {
				e.rep.UnknownBranches++
			}
		}
	} else {
		r, m := e.check(c)
		tFeas, tModel = r != sym.Unsat, m
		if r == sym.Unknown {
			e.rep.UnknownBranches++
		}
		if r == sym.Unsat {
			fFeas = true // path condition is satisfiable by invariant
		} else {
			r2, m2 := e.check(nc)
			fFeas, fModel = r2 != sym.Unsat, m2
			if r2 == sym.Unknown {
				e.rep.UnknownBranches++
			}
		}
	}
	switch {
	case tFeas && fFeas:
		e.pushAlt(Decision{Alt: 0}, fModel)
		e.trace = append(e.trace, Decision{Alt: 1})
		e.addPC(c)
		if tModel != nil {
			e.model = tModel
		}
		return true
	case tFeas:
		e.trace = append(e.trace, Decision{Alt: 1})
		e.addPC(c)
		if tModel != nil {
			e.model = tModel
		}
		return true
	case fFeas:
		e.trace = append(e.trace, Decision{Alt: 0})
		e.addPC(nc)
		if fModel != nil {
			e.model = fModel
		}
		return false
	}
	e.end("infeasible", "both branch sides infeasible")
	return false
}

// assume constrains the path; ends it when the constraint is infeasible.
func (e *Exec) assume(c *sym.Term) {
	if c.IsTrue() {
		return
	}
	if c.IsFalse() {
		e.end("assume", "assumption false")
	}
	if e.pcSet[c.ID] {
		return
	}
	if v, ok := e.evalModel(c); ok && v.Sign() != 0 {
		e.addPC(c)
		return
	}
	r, m := e.check(c)
	if r == sym.Unsat {
		e.end("assume", "assumption infeasible")
	}
	e.addPC(c)
	if m != nil {
		e.model = m
	}
}

// concretize forks over the feasible values of t (at most cfg.ConcMax) and returns this path's value.
func (e *Exec) concretize(t *sym.Term, why string) uint64 {
	if t.IsConst() {
		return t.Uint64()
	}
	if d, ok := e.takePrefix(); ok {
		e.addPC(e.tb.Eq(t, e.tb.ConstBig(t.W, d.Val)))
		e.afterPrefixStep()
		return d.Val.Uint64()
	}
	e.rep.Concretisations++
	var vals []*big.Int
	var models []*sym.Model
	var excl []*sym.Term
	if v, ok := e.evalModel(t); ok {
		vals = append(vals, v)
		models = append(models, e.model)
		excl = append(excl, e.tb.Not(e.tb.Eq(t, e.tb.ConstBig(t.W, v))))
	}
	max := e.cfg.ConcMax
	if e.cfg.ConcSample > 0 {
		// sampled concretisation: follow the smallest and the largest feasible value (found by bisection) and up to
		// ConcSample-2 arbitrary ones; boundary values are where length / offset arithmetic goes wrong
		add := func(v *big.Int, m *sym.Model) {
			for _, x := range vals {
				if x.Cmp(v) == 0 {
					return
				}
			}
			vals = append(vals, v)
			models = append(models, m)
		}
		seed := func() (*big.Int, *sym.Model, bool) {
			if len(vals) > 0 {
				return vals[0], models[0], true
			}
			r, m := e.check()
			if r != sym.Sat || m == nil {
				return nil, nil, false
			}
			v, ok := e.tb.Eval(t, m, map[int]*big.Int{})
			if !ok {
				return nil, nil, false
			}
			add(v, m)
			return v, m, true
		}
		if v0, m0, ok := seed(); ok {
			one := big.NewInt(1)
			top := new(big.Int).Sub(new(big.Int).Lsh(one, uint(t.W)), one)
			// largest
			lo, lom, hi := new(big.Int).Set(v0), m0, new(big.Int).Set(top)
			for lo.Cmp(hi) < 0 {
				mid := new(big.Int).Add(lo, hi)
				mid.Add(mid, one).Rsh(mid, 1)
				r, m := e.check(e.tb.ULe(e.tb.ConstBig(t.W, mid), t))
				if r == sym.Sat && m != nil {
					if v, ok := e.tb.Eval(t, m, map[int]*big.Int{}); ok && v.Cmp(mid) >= 0 {
						lo, lom = v, m
						continue
					}
				}
				if r == sym.Unknown {
					break
				}
				hi = mid.Sub(mid, one)
			}
			add(lo, lom)
			// smallest
			hi2, him, lo2 := new(big.Int).Set(v0), m0, big.NewInt(0)
			for lo2.Cmp(hi2) < 0 {
				mid := new(big.Int).Add(lo2, hi2)
				mid.Rsh(mid, 1)
				r, m := e.check(e.tb.ULe(t, e.tb.ConstBig(t.W, mid)))
				if r == sym.Sat && m != nil {
					if v, ok := e.tb.Eval(t, m, map[int]*big.Int{}); ok && v.Cmp(mid) <= 0 {
						hi2, him = v, m
						continue
					}
				}
				if r == sym.Unknown {
					break
				}
				lo2 = mid.Add(mid, one)
			}
			add(hi2, him)
			for len(vals) < e.cfg.ConcSample {
				var ex []*sym.Term
				for _, v := range vals {
					ex = append(ex, e.tb.Not(e.tb.Eq(t, e.tb.ConstBig(t.W, v))))
				}
				r, m := e.check(ex...)
				if r != sym.Sat || m == nil {
					break
				}
				v, ok := e.tb.Eval(t, m, map[int]*big.Int{})
				if !ok {
					break
				}
				add(v, m)
			}
			e.rep.Stubs[fmt.Sprintf("sampled concretisation (min, max and up to %d other values followed; obligations at the site itself decided for all values first): %s", e.cfg.ConcSample-2, why)]++
			max = -1
		}
	}
	for max >= 0 {
		r, m := e.check(excl...)
		if r == sym.Unsat {
			break
		}
		if r == sym.Unknown || m == nil {
			e.rep.noteInconclusive("concretize/"+why, "solver unknown while enumerating values")
			break
		}
		v, ok := e.tb.Eval(t, m, map[int]*big.Int{})
		if !ok {
			e.rep.noteInconclusive("concretize/"+why, "cannot evaluate term under model")
			break
		}
		vals = append(vals, v)
		models = append(models, m)
		excl = append(excl, e.tb.Not(e.tb.Eq(t, e.tb.ConstBig(t.W, v))))
		if len(vals) > max {
			e.rep.noteInconclusive("concretize/"+why, fmt.Sprintf("more than %d feasible values at %s; remaining values not explored", max, e.where()))
			break
		}
	}
	if len(vals) == 0 {
		e.end("infeasible", "no feasible value")
	}
	for i := len(vals) - 1; i >= 1; i-- {
		e.pushAlt(Decision{Alt: i, Val: vals[i]}, models[i])
	}
	e.trace = append(e.trace, Decision{Alt: 0, Val: vals[0]})
	e.addPC(e.tb.Eq(t, e.tb.ConstBig(t.W, vals[0])))
	if models[0] != nil {
		e.model = models[0]
	}
	return vals[0].Uint64()
}

// choice forks over n alternatives without constraints (harness-level nondeterministic choice).
func (e *Exec) choice(n int) int {
	if n <= 1 {
		return 0
	}
	if d, ok := e.takePrefix(); ok {
		e.afterPrefixStep()
		return d.Alt
	}
	for i := n - 1; i >= 1; i-- {
		e.pushAlt(Decision{Alt: i}, e.model)
	}
	e.trace = append(e.trace, Decision{Alt: 0})
	return 0
}

func (e *Exec) where() string {
	if e.curInstr == nil {
		return "?"
	}
	fn := e.curInstr.Parent()
	pos := e.prog.Fset.Position(e.curInstr.Pos())
	if !pos.IsValid() {
		return fn.String()
	}
	return fmt.Sprintf("%s (%s:%d)", fn.String(), shortFile(pos.Filename), pos.Line)
}

func shortFile(f string) string {
	f = strings.TrimPrefix(f, "/repo/")
	return f
}

// quickSat evaluates the assertions under a few candidate assignments (zeros, ones, pseudo-random).
func (e *Exec) quickSat(as []*sym.Term) *sym.Model {
	vars, apps := sym.Leaves(as)
	if len(apps) > 0 {
		return nil
	}
	seed := uint64(0x9E3779B97F4A7C15)
	next := func() uint64 {
		seed ^= seed << 13
		seed ^= seed >> 7
		seed ^= seed << 17
		return seed
	}
	for trial := 0; trial < 10; trial++ {
		m := &sym.Model{Vars: map[string]*big.Int{}, Apps: map[int]*big.Int{}}
		for _, v := range vars {
			var val *big.Int
			switch trial {
			case 0:
				val = big.NewInt(0)
			case 1:
				val = new(big.Int).Sub(new(big.Int).Lsh(big.NewInt(1), uint(maxInt(v.W, 1))), big.NewInt(1))
			default:
				val = new(big.Int).SetUint64(next())
				if v.W > 0 && v.W < 64 {
					val.And(val, new(big.Int).Sub(new(big.Int).Lsh(big.NewInt(1), uint(v.W)), big.NewInt(1)))
				}
			}
			if v.W == 0 {
				val = new(big.Int).And(val, big.NewInt(1))
			}
			m.Vars[v.Name] = val
		}
		memo := map[int]*big.Int{}
		ok := true
		for _, a := range as {
			r, good := e.tb.Eval(a, m, memo)
			if !good || r.Sign() == 0 {
				ok = false
				break
			}
		}
		if ok {
			return m
		}
	}
	return nil
}

func maxInt(a, b int) int {
	if a > b {
		return a
	}
	return b
}
