package symx

import (
	"fmt"
	"go/types"
	"strconv"
	"strings"

	"golang.org/x/tools/go/ssa"
	"verif/engine/sym"
)

// Loopback UDP model: sockets are in-memory datagram queues addressed by port number.
type udpSock struct {
	port     int
	queue    []udpDgram
	closed   bool
	deadline bool // a read deadline has been set: reads time out when nothing else can happen
}

type udpDgram struct {
	data []*sym.Term
	from int
}

func (e *Exec) udpAddrType() types.Type {
	pkg := e.prog.ImportedPackage("net")
	return pkg.Type("UDPAddr").Type()
}

func (e *Exec) newUDPAddr(port int) Value {
	o := e.allocType(e.udpAddrType(), "udpaddr")
	// struct { IP IP; Port int; Zone string }
	o.Cells[0] = e.newByteSlice([]*sym.Term{e.byteConst(127), e.byteConst(0), e.byteConst(0), e.byteConst(1)})
	o.Cells[1] = e.tb.Const(64, uint64(port))
	return Ptr{Obj: o}
}

func (e *Exec) sockOf(v Value) *udpSock {
	p := v.(Ptr)
	if p.Obj == nil {
		return nil
	}
	return e.udpSocks[p.Obj]
}

func netTimeoutError(e *Exec) Value {
	return e.errorValue(e.strConst("i/o timeout (model: no datagram queued)"))
}

func init() {
	reg := func(name string, f intrinsic) { intrinsics[name] = f }
	reg("net.ListenUDP", func(e *Exec, fn *ssa.Function, a []Value) Value {
		if e.udpSocks == nil {
			e.udpSocks = map[*Object]*udpSock{}
		}
		e.udpNextPort++
		o := e.newObject(1, "udpconn")
		o.Cells[0] = e.tb.Const(64, 0)
		e.udpSocks[o] = &udpSock{port: 40000 + e.udpNextPort}
		return Tuple{Ptr{Obj: o}, Iface{}}
	})
	// net.ResolveUDPAddr on a concrete "host:port" literal (no name resolution in the model: the host part is taken to be
	// the loopback address, like every socket of the model)
	reg("net.ResolveUDPAddr", func(e *Exec, fn *ssa.Function, a []Value) Value {
		addr, ok := concreteString(a[1].(Str))
		if !ok {
			panic(unsupported("net.ResolveUDPAddr with a symbolic address"))
		}
		i := strings.LastIndexByte(addr, ':')
		if i < 0 {
			return Tuple{Ptr{}, e.errorValue(e.strConst("address " + addr + ": missing port in address"))}
		}
		port, err := strconv.Atoi(addr[i+1:])
		if err != nil || port < 0 || port > 65535 {
			return Tuple{Ptr{}, e.errorValue(e.strConst("address " + addr + ": invalid port"))}
		}
		return Tuple{e.newUDPAddr(port), Iface{}}
	})
	reg("internal/bytealg.MakeNoZero", func(e *Exec, fn *ssa.Function, a []Value) Value {
		n := int(e.concretize(a[0].(*sym.Term), "make-len"))
		return e.newByteSlice(make([]*sym.Term, 0, 0)[:0:0]).withZeros(e, n)
	})
	reg("runtime.GOMAXPROCS", func(e *Exec, fn *ssa.Function, a []Value) Value { return e.tb.Const(64, 1) })
	reg("runtime.Gosched", func(e *Exec, fn *ssa.Function, a []Value) Value { e.runPendingTasks(); return nil })
	reg("(*net.UDPConn).LocalAddr", func(e *Exec, fn *ssa.Function, a []Value) Value {
		s := e.sockOf(a[0])
		if s == nil {
			return Iface{}
		}
		return Iface{T: types.NewPointer(e.udpAddrType()), V: e.newUDPAddr(s.port)}
	})
	nilConnErr := func(e *Exec) Value { return e.errorValue(e.strConst("invalid argument (nil connection)")) }
	reg("(*net.UDPConn).WriteToUDP", func(e *Exec, fn *ssa.Function, a []Value) Value {
		s := e.sockOf(a[0])
		if s == nil {
			return Tuple{e.tb.Const(64, 0), nilConnErr(e)}
		}
		b := a[1].(Slice)
		addr := a[2].(Ptr)
		if addr.Obj == nil {
			return Tuple{e.tb.Const(64, 0), e.errorValue(e.strConst("missing address"))}
		}
		port := int(e.concretize(addr.Obj.Cells[addr.Off+1].(*sym.Term), "udp-port"))
		var data []*sym.Term
		if b.Len > 0 {
			data = append(data, e.bytesOf(b)...)
		}
		for _, t := range e.udpSocks {
			if t.port == port {
				t.queue = append(t.queue, udpDgram{data, s.port})
			}
		}
		return Tuple{e.tb.Const(64, uint64(b.Len)), Iface{}}
	})
	reg("(*net.UDPConn).ReadFromUDP", func(e *Exec, fn *ssa.Function, a []Value) Value {
		s := e.sockOf(a[0])
		if s == nil {
			return Tuple{e.tb.Const(64, 0), Ptr{}, nilConnErr(e)}
		}
		if s.closed {
			return Tuple{e.tb.Const(64, 0), Ptr{}, e.errorValue(e.strConst("use of closed network connection"))}
		}
		if len(s.queue) == 0 {
			// wait for a datagram or for Close; with a read deadline (or on the harness' own stack) the wait may time out
			e.block(func() bool { return len(s.queue) > 0 || s.closed }, s.deadline || e.cur == nil)
		}
		if s.closed {
			return Tuple{e.tb.Const(64, 0), Ptr{}, e.errorValue(e.strConst("use of closed network connection"))}
		}
		if len(s.queue) == 0 {
			return Tuple{e.tb.Const(64, 0), Ptr{}, netTimeoutError(e)}
		}
		d := s.queue[0]
		s.queue = s.queue[1:]
		b := a[1].(Slice)
		n := len(d.data)
		if n > b.Len {
			n = b.Len
		}
		for i := 0; i < n; i++ {
			e.setCell(b.Obj, b.Off+i, d.data[i])
		}
		return Tuple{e.tb.Const(64, uint64(n)), e.newUDPAddr(d.from), Iface{}}
	})
	for _, m := range []string{"SetReadDeadline", "SetWriteDeadline", "SetDeadline", "Close"} {
		m := m
		f := func(e *Exec, fn *ssa.Function, a []Value) Value {
			sk := e.sockOf(a[0])
			if sk == nil {
				return nilConnErr(e)
			}
			switch m {
			case "Close":
				if sk.closed {
					return e.errorValue(e.strConst("use of closed network connection"))
				}
				sk.closed = true
			case "SetReadDeadline", "SetDeadline":
				sk.deadline = true
			}
			return Iface{}
		}
		reg("(*net.UDPConn)."+m, f)
		reg("(*net.conn)."+m, f) // promoted through the embedded conn (same object, offset 0)
	}
	reg("(*net.conn).LocalAddr", intrinsics["(*net.UDPConn).LocalAddr"])

	// ---- sync.Map as an association list, sync.Once as a flag
	smap := func(e *Exec, v Value) *MapObj {
		p := v.(Ptr)
		if e.syncMaps == nil {
			e.syncMaps = map[*Object]map[int]*MapObj{}
		}
		if e.syncMaps[p.Obj] == nil {
			e.syncMaps[p.Obj] = map[int]*MapObj{}
		}
		m := e.syncMaps[p.Obj][p.Off]
		if m == nil {
			e.nextObj++
			m = &MapObj{ID: e.nextObj, Epoch: e.epoch}
			e.syncMaps[p.Obj][p.Off] = m
		}
		return m
	}
	reg("(*sync.Map).Store", func(e *Exec, fn *ssa.Function, a []Value) Value {
		e.mapUpdate(smap(e, a[0]), a[1], a[2])
		return nil
	})
	reg("(*sync.Map).Load", func(e *Exec, fn *ssa.Function, a []Value) Value {
		m := smap(e, a[0])
		i := e.mapFind(m, a[1])
		if i < 0 {
			return Tuple{Iface{}, e.tb.False}
		}
		return Tuple{m.Entries[i].V, e.tb.True}
	})
	reg("(*sync.Map).Delete", func(e *Exec, fn *ssa.Function, a []Value) Value {
		e.mapDelete(smap(e, a[0]), a[1])
		return nil
	})
	reg("(*sync.Map).Range", func(e *Exec, fn *ssa.Function, a []Value) Value {
		m := smap(e, a[0])
		cl := a[1].(*Closure)
		entries := append([]mapEntry{}, m.Entries...)
		for _, en := range entries {
			r := e.callFunction(cl.Fn, []Value{en.K, en.V}, cl.Bind)
			if t, ok := r.(*sym.Term); ok && t.IsFalse() {
				break
			}
		}
		return nil
	})
	reg("(*sync.Once).Do", func(e *Exec, fn *ssa.Function, a []Value) Value {
		p := a[0].(Ptr)
		if e.onceDone == nil {
			e.onceDone = map[*Object]map[int]bool{}
		}
		if e.onceDone[p.Obj] == nil {
			e.onceDone[p.Obj] = map[int]bool{}
		}
		if e.onceDone[p.Obj][p.Off] {
			return nil
		}
		e.onceDone[p.Obj][p.Off] = true
		cl := a[1].(*Closure)
		e.callFunction(cl.Fn, nil, cl.Bind)
		return nil
	})
	// sync.Pool: Get hands back the most recently Put item if there is one (the choice that exposes premature reuse),
	// otherwise calls New
	poolKey := func(e *Exec, v Value) string {
		p := v.(Ptr)
		return fmt.Sprintf("%p+%d", p.Obj, p.Off)
	}
	reg("(*sync.Pool).Put", func(e *Exec, fn *ssa.Function, a []Value) Value {
		if e.pools == nil {
			e.pools = map[string][]Value{}
		}
		k := poolKey(e, a[0])
		e.pools[k] = append(e.pools[k], a[1])
		return nil
	})
	reg("(*sync.Pool).Get", func(e *Exec, fn *ssa.Function, a []Value) Value {
		k := poolKey(e, a[0])
		if items := e.pools[k]; len(items) > 0 {
			v := items[len(items)-1]
			e.pools[k] = items[:len(items)-1]
			return v
		}
		p := a[0].(Ptr)
		st := e.prog.ImportedPackage("sync").Type("Pool").Type().Underlying().(*types.Struct)
		for i := 0; i < st.NumFields(); i++ {
			if st.Field(i).Name() == "New" {
				nv := p.Obj.Cells[p.Off+fieldOffset(st, i)]
				if cl, ok := nv.(*Closure); ok && cl != nil {
					return e.callFunction(cl.Fn, nil, cl.Bind)
				}
				if f, ok := nv.(*ssa.Function); ok && f != nil {
					return e.callFunction(f, nil, nil)
				}
			}
		}
		return Iface{}
	})
	// time.After: a channel that is ready at once (a select listing it last models "otherwise, time out")
	reg("time.After", func(e *Exec, fn *ssa.Function, a []Value) Value {
		e.nextObj++
		return &ChanObj{ID: e.nextObj, Cap: 1, Timer: true, Buf: []Value{e.mkTime(e.tb.Const(64, 0), e.tb.Const(64, 0))}}
	})
	_ = fmt.Sprint
}

func (s Slice) withZeros(e *Exec, n int) Slice {
	b := make([]*sym.Term, n)
	for i := range b {
		b[i] = e.byteConst(0)
	}
	return e.newByteSlice(b)
}
