package symx

import (
	"golang.org/x/tools/go/ssa"
	"verif/engine/sym"
)

// base64 (padded encodings) on concrete-length symbolic data. The alphabet is read from the
// real Encoding object built by encoding/base64's own init. Inputs containing CR/LF are assumed away.

func (e *Exec) b64Alphabet(recv Ptr) ([]*sym.Term, *sym.Term) {
	alpha := make([]*sym.Term, 64)
	for i := range alpha {
		alpha[i] = recv.Obj.Cells[recv.Off+i].(*sym.Term)
	}
	pad := recv.Obj.Cells[recv.Off+64+256].(*sym.Term) // padChar rune
	return alpha, e.tb.Extract(pad, 7, 0)
}

func (e *Exec) b64Sextet(alpha []*sym.Term, c *sym.Term) (*sym.Term, *sym.Term) {
	// value (6 bits) and validity of character c
	tb := e.tb
	val := tb.Const(6, 0)
	valid := tb.False
	for i := 63; i >= 0; i-- {
		eq := tb.Eq(c, alpha[i])
		val = tb.Ite(eq, tb.Const(6, uint64(i)), val)
		valid = tb.BOr(eq, valid)
	}
	return val, valid
}

func init() {
	intrinsics["(*encoding/base64.Encoding).EncodeToString"] = func(e *Exec, fn *ssa.Function, a []Value) Value {
		recv := a[0].(Ptr)
		alpha, pad := e.b64Alphabet(recv)
		src := a[1].(Slice)
		var in []*sym.Term
		if src.Len > 0 {
			in = e.bytesOf(src)
		}
		tb := e.tb
		var out []*sym.Term
		sel := func(six *sym.Term) *sym.Term { return e.selectTerm(alpha, tb.ZExt(six, 64)) }
		for i := 0; i < len(in); i += 3 {
			rem := len(in) - i
			b0 := in[i]
			b1, b2 := tb.Const(8, 0), tb.Const(8, 0)
			if rem > 1 {
				b1 = in[i+1]
			}
			if rem > 2 {
				b2 = in[i+2]
			}
			w := tb.Concat(b0, b1, b2)
			out = append(out, sel(tb.Extract(w, 23, 18)), sel(tb.Extract(w, 17, 12)))
			if rem > 1 {
				out = append(out, sel(tb.Extract(w, 11, 6)))
			} else {
				out = append(out, pad)
			}
			if rem > 2 {
				out = append(out, sel(tb.Extract(w, 5, 0)))
			} else {
				out = append(out, pad)
			}
		}
		if len(in) > 0 {
			if e.b64Origin == nil {
				e.b64Origin = map[string][]*sym.Term{}
			}
			e.b64Origin[termKey(out)] = in
		}
		return Str{out}
	}
	intrinsics["(*encoding/base64.Encoding).DecodeString"] = func(e *Exec, fn *ssa.Function, a []Value) Value {
		recv := a[0].(Ptr)
		alpha, pad := e.b64Alphabet(recv)
		s := a[1].(Str).B
		tb := e.tb
		if orig, ok := e.b64Origin[termKey(s)]; ok {
			// the string is, term for term, the output of EncodeToString in this run: decode(encode(x)) = x (encoding/base64 contract)
			e.rep.Stubs["base64 DecodeString applied to the EncodeToString output of the same run: result taken as the encoded bytes (decode(encode(x)) = x)"]++
			return Tuple{e.newByteSlice(append([]*sym.Term{}, orig...)), Iface{}}
		}
		// CR/LF are skipped by the real decoder: outside the model
		var noNL []*sym.Term
		for _, c := range s {
			noNL = append(noNL, tb.Not(tb.BOr(tb.Eq(c, tb.Const(8, '\r')), tb.Eq(c, tb.Const(8, '\n')))))
		}
		all := tb.BAnd(noNL...)
		if !all.IsTrue() {
			if r, _ := e.check(tb.Not(all)); r != sym.Unsat {
				e.rep.Stubs["ASSUMED base64 input without CR/LF (the real decoder skips them; outside the claim)"]++
				e.assume(all)
			}
		}
		fail := func(out []*sym.Term) Value {
			return Tuple{e.newByteSlice(out), e.errorValue(e.strConst("illegal base64 data"))}
		}
		var out []*sym.Term
		n := len(s)
		if n == 0 {
			return Tuple{e.newByteSlice(nil), Iface{}}
		}
		full := n / 4
		if n%4 != 0 {
			// a short final quantum is always an error for padded encodings; earlier quanta are still decoded/validated
			for q := 0; q < full; q++ {
				var vs, oks []*sym.Term
				for j := 0; j < 4; j++ {
					v, ok := e.b64Sextet(alpha, s[4*q+j])
					vs, oks = append(vs, v), append(oks, ok)
				}
				if !e.branch(tb.BAnd(oks...)) {
					return fail(out)
				}
				w := tb.Concat(vs...)
				out = append(out, tb.Extract(w, 23, 16), tb.Extract(w, 15, 8), tb.Extract(w, 7, 0))
			}
			return fail(out)
		}
		for q := 0; q < full; q++ {
			var vs, oks []*sym.Term
			for j := 0; j < 4; j++ {
				v, ok := e.b64Sextet(alpha, s[4*q+j])
				vs, oks = append(vs, v), append(oks, ok)
			}
			last := q == full-1
			if last {
				isPad3 := tb.Eq(s[4*q+3], pad)
				if e.branch(isPad3) {
					isPad2 := tb.Eq(s[4*q+2], pad)
					if e.branch(isPad2) {
						if !e.branch(tb.BAnd(oks[0], oks[1])) {
							return fail(out)
						}
						w := tb.Concat(vs[0], vs[1])
						out = append(out, tb.Extract(w, 11, 4))
						return Tuple{e.newByteSlice(out), Iface{}}
					}
					if !e.branch(tb.BAnd(oks[0], oks[1], oks[2])) {
						return fail(out)
					}
					w := tb.Concat(vs[0], vs[1], vs[2])
					out = append(out, tb.Extract(w, 17, 10), tb.Extract(w, 9, 2))
					return Tuple{e.newByteSlice(out), Iface{}}
				}
			}
			if !e.branch(tb.BAnd(oks...)) {
				return fail(out)
			}
			w := tb.Concat(vs...)
			out = append(out, tb.Extract(w, 23, 16), tb.Extract(w, 15, 8), tb.Extract(w, 7, 0))
		}
		return Tuple{e.newByteSlice(out), Iface{}}
	}
}

func termKey(ts []*sym.Term) string {
	b := make([]byte, 0, 4*len(ts))
	for _, t := range ts {
		id := t.ID
		b = append(b, byte(id), byte(id>>8), byte(id>>16), byte(id>>24))
	}
	return string(b)
}
