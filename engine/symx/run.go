package symx

import (
	"fmt"
	"os"
	"path/filepath"
	"runtime/debug"
	"strings"
	"time"

	"golang.org/x/tools/go/packages"
	"golang.org/x/tools/go/ssa"
	"golang.org/x/tools/go/ssa/ssautil"
	"verif/engine/sym"
)

// Loaded is the SSA program for /repo plus overlaid harness files.
type Loaded struct {
	Prog    *ssa.Program
	Pkgs    map[string]*ssa.Package // by import path
	Overlay map[string][]byte
	LoadDur time.Duration
}

// Load type-checks and builds SSA for the given package patterns (relative to dir) with the overlay applied.
// Dropped records the harness files that did not type-check against the tree under test (file -> first error) and were
// left out so that the remaining harnesses of the package can still run.
var Dropped = map[string]string{}

// Load loads the packages with the harness overlay. A harness file that does not compile against this tree (it refers to
// an unexported function whose signature changed, say) is dropped and the load is repeated; the caller reports the
// harnesses that lived in it as inconclusive.
func Load(dir string, overlay map[string][]byte, patterns []string) (*Loaded, error) {
	for attempt := 0; ; attempt++ {
		ld, err := loadOnce(dir, overlay, patterns)
		if err == nil || attempt >= 8 {
			return ld, err
		}
		dropped := false
		for _, line := range strings.Split(err.Error(), "\n") {
			i := strings.Index(line, ".go:")
			if i < 0 {
				continue
			}
			file := line[:i+3]
			base := filepath.Base(file)
			if !strings.HasPrefix(base, "zz_verif_") || base == "zz_verif_api.go" {
				continue
			}
			if _, ok := overlay[file]; ok {
				delete(overlay, file)
				Dropped[file] = strings.TrimSpace(line)
				dropped = true
			}
		}
		if !dropped {
			return nil, err
		}
	}
}

func loadOnce(dir string, overlay map[string][]byte, patterns []string) (*Loaded, error) {
	t0 := time.Now()
	cfg := &packages.Config{Mode: packages.LoadAllSyntax, Dir: dir, Overlay: overlay,
		Env: append(os.Environ(), "GOFLAGS=-mod=mod", "GOPROXY=off")}
	pkgs, err := packages.Load(cfg, patterns...)
	if err != nil {
		return nil, err
	}
	var errs []string
	packages.Visit(pkgs, nil, func(p *packages.Package) {
		for _, e := range p.Errors {
			errs = append(errs, e.Error())
		}
	})
	if len(errs) > 0 {
		return nil, fmt.Errorf("package errors:\n%s", strings.Join(errs, "\n"))
	}
	prog, _ := ssautil.AllPackages(pkgs, ssa.InstantiateGenerics)
	prog.Build()
	ld := &Loaded{Prog: prog, Pkgs: map[string]*ssa.Package{}, Overlay: overlay, LoadDur: time.Since(t0)}
	for _, p := range prog.AllPackages() {
		ld.Pkgs[p.Pkg.Path()] = p
	}
	return ld, nil
}

// extra Exec fields live here to keep explore.go focused.
type execExtra struct {
	curFrame        *frame
	overlay         map[string][]byte
	addrObjs        []*Object
	panicFrames     []*frame
	tasks           []*coTask
	cur             *coTask
	skipIntrinsic   *ssa.Function
	waitGroups      map[string]int
	inTask          int
	pools           map[string][]Value
	mapOrderReverse bool
}

// Result of one harness instance.
type Result struct {
	Harness string
	Pkg     string
	Params  map[string]int
	Rep     *Report
	Err     string // engine failure (unsupported etc.)
	Wall    time.Duration
}

// RunHarness explores every path of one harness function under cfg.
func RunHarness(ld *Loaded, pkgPath, fnName string, cfg *Config, solverKind sym.SolverKind) (res *Result) {
	t0 := time.Now()
	res = &Result{Harness: fnName, Pkg: pkgPath, Params: cfg.Params}
	pkg := ld.Pkgs[pkgPath]
	if pkg == nil {
		res.Err = "package not loaded: " + pkgPath
		res.Rep = newReport()
		return
	}
	fn := pkg.Func(fnName)
	if fn == nil {
		res.Err = "harness function not found: " + fnName
		res.Rep = newReport()
		return
	}
	if cfg.Unwind == 0 {
		cfg.Unwind = 600
	}
	if cfg.MaxSteps == 0 {
		cfg.MaxSteps = 20_000_000
	}
	if cfg.MaxPaths == 0 {
		cfg.MaxPaths = 200000
	}
	if cfg.MaxDepth == 0 {
		cfg.MaxDepth = 120
	}
	if cfg.ConcMax == 0 {
		cfg.ConcMax = 300
	}
	if cfg.TimeoutMs == 0 {
		cfg.TimeoutMs = 10000
	}
	tb := sym.NewTable()
	e := &Exec{tb: tb, prog: ld.Prog, cfg: cfg, rep: newReport(), qcache: map[string]qres{},
		globals: map[*ssa.Global]*Object{}, inited: map[*ssa.Package]bool{}, harness: fn,
		inputSeen: map[string]bool{}, ifconvOK: map[*ssa.BasicBlock]*ifRegion{}}
	e.overlay = ld.Overlay
	for i := 0; i < 256; i++ {
		e.bytes[i] = tb.Const(8, uint64(i))
	}
	e.solver = sym.NewSolver(solverKind, tb, cfg.TimeoutMs)
	if d := os.Getenv("VERIF_SMT_LOG"); d != "" {
		if f, err := os.Create(filepath.Join(d, fmt.Sprintf("%s_%d.smt2", fnName, time.Now().UnixNano()%1000000))); err == nil {
			e.solver.Log = f
			defer f.Close()
		}
	}
	defer func() {
		e.solver.Close()
		e.rep.Solver = e.solver.Stats
		e.rep.Inputs = e.inputs
		res.Rep = e.rep
		res.Wall = time.Since(t0)
	}()
	e.work = []workItem{{}}
	for len(e.work) > 0 {
		it := e.work[len(e.work)-1]
		e.work = e.work[:len(e.work)-1]
		if e.rep.Paths >= cfg.MaxPaths {
			e.rep.noteInconclusive("paths", fmt.Sprintf("path budget %d exhausted; %d pending prefixes dropped", cfg.MaxPaths, len(e.work)+1))
			break
		}
		if !cfg.Deadline.IsZero() && time.Now().After(cfg.Deadline) {
			e.rep.noteInconclusive("deadline", fmt.Sprintf("instance deadline reached; %d pending prefixes dropped", len(e.work)+1))
			break
		}
		e.rep.Paths++
		kind, msg, fatal := e.runPath(fn, it)
		e.rep.PathKinds[kind]++
		if kind == "unsupported" {
			e.rep.noteInconclusive("unsupported", msg)
		}
		if fatal != "" {
			res.Err = fatal
			break
		}
	}
	for c := range e.rep.CoverDecl {
		_ = c
	}
	return
}

func (e *Exec) runPath(fn *ssa.Function, it workItem) (kind, msg, fatal string) {
	e.epoch++
	e.pc = nil
	e.pcSet = map[int]bool{}
	e.model = nil
	e.prefix = it.prefix
	e.pmodel = it.model
	e.trace = nil
	e.pos = 0
	e.steps = 0
	e.depth = 0
	e.catchDepth = 0
	e.addrObjs = nil
	e.panicFrames = nil
	e.tasks = nil
	e.cur = nil
	e.waitGroups = nil
	e.pools = nil
	e.mapOrderReverse = false
	e.lockState = map[*Object]int{}
	e.timeNow = 0
	e.lastNow = nil
	e.decOrigin = nil
	e.b64Origin = nil
	e.udpSocks, e.udpNextPort, e.syncMaps, e.onceDone = nil, 0, nil, nil
	e.randCtr = 0
	if len(e.prefix) == 0 {
		e.pmodel = nil
	}
	defer func() {
		r0 := recover()
		e.killTasks()
		if r0 != nil {
			defer func() { panic(r0) }()
		}
	}()
	defer func() {
		e.rep.Steps += e.steps
		// roll back writes to persistent objects
		for i := len(e.undo) - 1; i >= 0; i-- {
			e.undo[i]()
		}
		e.undo = e.undo[:0]
		for _, o := range e.addrObjs {
			o.Base = nil
		}
		if r := recover(); r != nil {
			switch x := r.(type) {
			case pathEnd:
				kind, msg = x.kind, x.msg
			case unsupportedErr:
				kind, msg = "unsupported", x.msg+" at "+e.where()
			case *targetPanic:
				// escaped the harness: a panic inside vPanics-free code is reported at its site already; this is an explicit builtin panic
				key := "panic/escaped/" + x.site
				e.violation(key, "panic", "panic escaped harness: "+describe(x.val), e.ensureModelSafe())
				kind, msg = "panic", "escaped"
			default:
				kind = "engine-crash"
				fatal = fmt.Sprintf("engine crash: %v at %s\n%s", r, e.where(), debug.Stack())
			}
		}
	}()
	e.callFunction(fn, nil, nil)
	e.runPendingTasks()
	e.rep.PathsDone++
	if e.rep.Witness == nil {
		if m := e.ensureModel(); m != nil || len(e.pc) == 0 {
			e.rep.Witness = e.modelInputs(m)
		}
	}
	return "done", "", ""
}

func (e *Exec) ensureModelSafe() (m *sym.Model) {
	defer func() { recover() }()
	return e.ensureModel()
}

// HarnessOverlay builds the overlay map for harness files under harnessDir (mirrors /repo layout).
// Each file <harnessDir>/<rel>/<name>.go is injected as <repo>/<rel>/zz_verif_<name>.go; the shim is added per package.
func HarnessOverlay(repo, harnessDir, shimPath string, rels []string) (map[string][]byte, error) {
	ov := map[string][]byte{}
	shim, err := os.ReadFile(shimPath)
	if err != nil {
		return nil, err
	}
	for _, rel := range rels {
		dir := filepath.Join(harnessDir, rel)
		ents, err := os.ReadDir(dir)
		if err != nil {
			return nil, err
		}
		pkgName := ""
		for _, en := range ents {
			if !strings.HasSuffix(en.Name(), ".go") {
				continue
			}
			b, err := os.ReadFile(filepath.Join(dir, en.Name()))
			if err != nil {
				return nil, err
			}
			if pkgName == "" {
				for _, l := range strings.Split(string(b), "\n") {
					if strings.HasPrefix(l, "package ") {
						pkgName = strings.TrimSpace(strings.TrimPrefix(l, "package "))
						break
					}
				}
			}
			ov[filepath.Join(repo, rel, "zz_verif_"+en.Name())] = b
		}
		if pkgName == "" {
			return nil, fmt.Errorf("no harness files in %s", dir)
		}
		ov[filepath.Join(repo, rel, "zz_verif_api.go")] = []byte(strings.Replace(string(shim), "package PKG", "package "+pkgName, 1))
	}
	return ov, nil
}
