package symx

import (
	"go/token"

	"golang.org/x/tools/go/ssa"
	"verif/engine/sym"
)

// ifRegion describes a side-effect-free diamond/triangle that is executed as ite.
type ifRegion struct {
	ok    bool
	thenB *ssa.BasicBlock // nil when the true edge goes straight to join
	elseB *ssa.BasicBlock
	join  *ssa.BasicBlock
}

type summary struct{}

func pureInstr(in ssa.Instruction) bool {
	switch x := in.(type) {
	case *ssa.DebugRef, *ssa.Jump:
		return true
	case *ssa.BinOp:
		// run-time checks of division and signed shift counts are emitted under the region's guard
		return widthOf(x.X.Type()) >= 0
	case *ssa.UnOp:
		if x.Op == token.MUL {
			return widthOf(x.Type()) >= 0 // load of an integer/bool (guarded)
		}
		return x.Op != token.ARROW && widthOf(x.X.Type()) >= 0
	case *ssa.IndexAddr, *ssa.FieldAddr:
		return true
	case *ssa.Store:
		return widthOf(x.Val.Type()) >= 0 // conditional store under the region's guard
	case *ssa.Convert:
		return widthOf(x.X.Type()) > 0 && widthOf(x.Type()) > 0
	case *ssa.ChangeType:
		return widthOf(x.Type()) >= 0
	}
	return false
}

func pureBlock(b *ssa.BasicBlock) bool {
	if len(b.Instrs) > 12 {
		return false
	}
	for _, in := range b.Instrs {
		if !pureInstr(in) {
			return false
		}
	}
	_, ok := b.Instrs[len(b.Instrs)-1].(*ssa.Jump)
	return ok
}

func (e *Exec) ifConvertible(b *ssa.BasicBlock) *ifRegion {
	if r, ok := e.ifconvOK[b]; ok {
		if r.ok {
			return r
		}
		return nil
	}
	r := &ifRegion{}
	e.ifconvOK[b] = r
	t, f := b.Succs[0], b.Succs[1]
	side := func(s *ssa.BasicBlock) bool { return len(s.Preds) == 1 && pureBlock(s) }
	switch {
	case side(t) && side(f) && t.Succs[0] == f.Succs[0] && t != f:
		r.thenB, r.elseB, r.join = t, f, t.Succs[0]
	case side(t) && t.Succs[0] == f:
		r.thenB, r.join = t, f
	case side(f) && f.Succs[0] == t:
		r.elseB, r.join = f, t
	default:
		return nil
	}
	if r.join == b {
		return nil
	}
	// every phi of join must be an integer/bool
	for _, in := range r.join.Instrs {
		phi, ok := in.(*ssa.Phi)
		if !ok {
			break
		}
		if widthOf(phi.Type()) < 0 {
			return nil
		}
	}
	r.ok = true
	return r
}

func predIndex(b, pred *ssa.BasicBlock) int {
	for i, p := range b.Preds {
		if p == pred {
			return i
		}
	}
	return -1
}

// runIfConverted executes both sides of the region and merges the join's phis with ite.
func (e *Exec) runIfConverted(fr *frame, b *ssa.BasicBlock, r *ifRegion, c *sym.Term) *ssa.BasicBlock {
	for k, s := range []*ssa.BasicBlock{r.thenB, r.elseB} {
		if s == nil {
			continue
		}
		g := c
		if k == 1 {
			g = e.tb.Not(c)
		}
		e.guard = append(e.guard, g)
		for _, in := range s.Instrs {
			if _, ok := in.(*ssa.Jump); ok {
				break
			}
			e.steps++
			e.curInstr = in
			e.step(fr, in)
		}
		e.guard = e.guard[:len(e.guard)-1]
	}
	tPred, fPred := r.thenB, r.elseB
	if tPred == nil {
		tPred = b
	}
	if fPred == nil {
		fPred = b
	}
	ti, fi := predIndex(r.join, tPred), predIndex(r.join, fPred)
	var vals []*sym.Term
	var phis []*ssa.Phi
	for _, in := range r.join.Instrs {
		phi, ok := in.(*ssa.Phi)
		if !ok {
			break
		}
		tv := e.get(fr, phi.Edges[ti]).(*sym.Term)
		fv := e.get(fr, phi.Edges[fi]).(*sym.Term)
		vals = append(vals, e.tb.Ite(c, tv, fv))
		phis = append(phis, phi)
	}
	for i, p := range phis {
		fr.regs[p] = vals[i]
	}
	fr.skipPhi = r.join
	e.rep.IfConverted++
	return r.join
}
