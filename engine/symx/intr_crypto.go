package symx

import (
	"fmt"
	"strings"

	"golang.org/x/tools/go/ssa"
	"verif/engine/sym"
)

// Standard-library cryptographic primitives that no property is about are uninterpreted functions of their
// exact byte arguments: DES (over the 56 effective key bits), MD5/SHA-1/SHA-256, HMAC, PBKDF2.

func (e *Exec) bytesArg(b []*sym.Term) *sym.Term {
	if len(b) == 0 {
		return e.tb.Const(1, 0)
	}
	return e.tb.Concat(b...)
}

func (e *Exec) ufBytes(name string, outBytes int, args ...*sym.Term) []*sym.Term {
	whole := e.tb.UF(ufName(name, args), 8*outBytes, args...)
	out := make([]*sym.Term, outBytes)
	for i := 0; i < outBytes; i++ {
		out[i] = e.tb.Extract(whole, 8*(outBytes-i)-1, 8*(outBytes-i-1))
	}
	return out
}

func hashSize(name string) int {
	switch name {
	case "MD5":
		return 16
	case "SHA1":
		return 20
	case "SHA256":
		return 32
	}
	return 0
}

func hashNameOfCtor(fn string) string {
	switch fn {
	case "crypto/md5.New":
		return "MD5"
	case "crypto/sha1.New":
		return "SHA1"
	case "crypto/sha256.New":
		return "SHA256"
	}
	return ""
}

func (e *Exec) sliceBytes(v Value) []*sym.Term {
	s := v.(Slice)
	if s.Len == 0 {
		return nil
	}
	return append([]*sym.Term{}, e.bytesOf(s)...)
}

func (e *Exec) appendBytes(in Value, more []*sym.Term) Value {
	s := in.(Slice)
	var all []*sym.Term
	if s.Len > 0 {
		all = append(all, e.bytesOf(s)...)
	}
	all = append(all, more...)
	return e.newByteSlice(all)
}

func init() {
	reg := func(name string, f intrinsic) { intrinsics[name] = f }
	reg("crypto/des.NewCipher", func(e *Exec, fn *ssa.Function, a []Value) Value {
		k := a[0].(Slice)
		if k.Len != 8 {
			return Tuple{Iface{}, e.errorValue(e.strConst("crypto/des: invalid key size"))}
		}
		return Tuple{Iface{T: opaqueType("desBlock"), V: &opaqueObj{kind: "des", key: e.bytesOf(k)}}, Iface{}}
	})
	for _, ctor := range []string{"crypto/md5.New", "crypto/sha1.New", "crypto/sha256.New"} {
		name := hashNameOfCtor(ctor)
		reg(ctor, func(e *Exec, fn *ssa.Function, a []Value) Value {
			return Iface{T: opaqueType("hash" + name), V: &opaqueObj{kind: "hash", name: name}}
		})
	}
	reg("crypto/hmac.New", func(e *Exec, fn *ssa.Function, a []Value) Value {
		cl, ok := a[0].(*Closure)
		if !ok || cl == nil {
			panic(unsupported("hmac.New with a nil hash constructor"))
		}
		name := hashNameOfCtor(cl.Fn.String())
		if name == "" {
			panic(unsupported("hmac.New over " + cl.Fn.String()))
		}
		return Iface{T: opaqueType("hmac" + name), V: &opaqueObj{kind: "hmac", name: name, key: e.sliceBytes(a[1])}}
	})
	reg("crypto/hmac.Equal", func(e *Exec, fn *ssa.Function, a []Value) Value { return apiBytesEq(e, fn, a) })
	reg("crypto/sha256.Sum256", func(e *Exec, fn *ssa.Function, a []Value) Value {
		out := e.ufBytes("SHA256", 32, e.bytesArg(e.sliceBytes(a[0])))
		agg := make(Agg, 32)
		for i := range out {
			agg[i] = out[i]
		}
		return agg
	})
	reg("crypto/md5.Sum", func(e *Exec, fn *ssa.Function, a []Value) Value {
		out := e.ufBytes("MD5", 16, e.bytesArg(e.sliceBytes(a[0])))
		agg := make(Agg, 16)
		for i := range out {
			agg[i] = out[i]
		}
		return agg
	})
	reg("golang.org/x/crypto/pbkdf2.Key", func(e *Exec, fn *ssa.Function, a []Value) Value {
		cl, _ := a[4].(*Closure)
		name := ""
		if cl != nil {
			name = hashNameOfCtor(cl.Fn.String())
		}
		if name == "" {
			panic(unsupported("pbkdf2.Key over an unknown hash"))
		}
		keyLen := int(e.concretize(a[3].(*sym.Term), "pbkdf2-keylen"))
		iter := a[2].(*sym.Term)
		out := e.ufBytes("PBKDF2_"+name, keyLen, e.bytesArg(e.sliceBytes(a[0])), e.bytesArg(e.sliceBytes(a[1])), iter)
		return e.newByteSlice(out)
	})
}

// desBlock applies the DES symbol over the 56 effective key bits (parity bits are ignored, FIPS 46-3).
func (e *Exec) desBlock(key, in []*sym.Term, decrypt bool) []*sym.Term {
	tb := e.tb
	var kbits []*sym.Term
	for _, b := range key {
		kbits = append(kbits, tb.Extract(b, 7, 1))
	}
	k := tb.Concat(kbits...)
	x := tb.Concat(in...)
	name, inv := "DES_E", "DES_D"
	if decrypt {
		name, inv = inv, name
	}
	var whole *sym.Term
	if x.Op == sym.OpUF && strings.HasPrefix(x.Name, inv) && x.Args[0] == k {
		whole = x.Args[1]
	} else {
		whole = tb.UF(ufName(name, []*sym.Term{k, x}), 64, k, x)
	}
	out := make([]*sym.Term, 8)
	for i := 0; i < 8; i++ {
		out[i] = tb.Extract(whole, 63-8*i, 56-8*i)
	}
	return out
}

func (e *Exec) opaqueCrypto(o *opaqueObj, name string, args []Value) (Value, bool) {
	switch o.kind {
	case "des":
		switch name {
		case "BlockSize":
			return e.tb.Const(64, 8), true
		case "Encrypt", "Decrypt":
			dst, src := args[0].(Slice), args[1].(Slice)
			if src.Len < 8 {
				panic(&targetPanic{val: e.strConst("crypto/des: input not full block"), site: e.where()})
			}
			if dst.Len < 8 {
				panic(&targetPanic{val: e.strConst("crypto/des: output not full block"), site: e.where()})
			}
			out := e.desBlock(o.key, e.bytesOf(Slice{Obj: src.Obj, Off: src.Off, Len: 8, Cap: 8, Stride: 1}), name == "Decrypt")
			for i, t := range out {
				e.setCell(dst.Obj, dst.Off+i, t)
			}
			return nil, true
		}
	case "hash", "hmac":
		size := hashSize(o.name)
		switch name {
		case "Write":
			o.buf = append(o.buf, e.sliceBytes(args[0])...)
			return Tuple{e.tb.Const(64, uint64(args[0].(Slice).Len)), Iface{}}, true
		case "Sum":
			var d []*sym.Term
			if o.kind == "hmac" {
				d = e.ufBytes("HMAC_"+o.name, size, e.bytesArg(o.key), e.bytesArg(o.buf))
			} else {
				d = e.ufBytes(o.name, size, e.bytesArg(o.buf))
			}
			return e.appendBytes(args[0], d), true
		case "Reset":
			o.buf = nil
			return nil, true
		case "Size":
			return e.tb.Const(64, uint64(size)), true
		case "BlockSize":
			return e.tb.Const(64, 64), true
		}
	}
	return nil, false
}

var _ = fmt.Sprint
