package symx

import (
	"golang.org/x/tools/go/ssa"
	"verif/engine/sym"
)

// Goroutines of the code under test run as coroutines: each in a host goroutine of its own, but only one at a time
// (strict hand-off), under ONE deterministic schedule:
//   - `go f()` only queues f; a queued or unblocked goroutine runs when the code that is running blocks (channel
//     receive on an empty channel, send on a full one, select with no ready case, WaitGroup.Wait, a socket read with
//     nothing queued, time.Sleep / runtime.Gosched), in creation order, each until it blocks or ends;
//   - a blocked goroutine becomes runnable again when its condition holds (data arrived, channel closed, counter zero);
//   - waits that carry a time-out (a socket read with a deadline, a select with a time.After case) time out only when
//     nothing else in the system can run ("time passes when nothing else can happen"); goroutines' timers fire before
//     the harness' own observation time-outs.
// The interleavings of real schedulers are NOT explored; this single schedule is the one in which started work is delayed
// as long as possible, which is what exposes state shared between a loop and the handlers it starts.

type coTask struct {
	cc       *ssa.CallCommon
	fv       Value
	args     []Value
	started  bool
	done     bool
	resume   chan bool
	yield    chan yieldMsg
	wait     func() bool // nil = runnable
	timed    bool
	timedOut bool
	fired    int
	ctx      stackCtx
}

type yieldMsg struct{ pan any }

type taskKilled struct{}

// the parts of the executor state that belong to one call stack
type stackCtx struct {
	curFrame    *frame
	panicFrames []*frame
	depth       int
	catchDepth  int
	guard       []*sym.Term
	inTask      int
}

func (e *Exec) saveCtx() stackCtx {
	return stackCtx{e.curFrame, e.panicFrames, e.depth, e.catchDepth, e.guard, e.inTask}
}

func (e *Exec) restoreCtx(c stackCtx) {
	e.curFrame, e.panicFrames, e.depth, e.catchDepth, e.guard, e.inTask = c.curFrame, c.panicFrames, c.depth, c.catchDepth, c.guard, c.inTask
}

func (e *Exec) spawn(fr *frame, cc *ssa.CallCommon, fv Value, args []Value) {
	e.tasks = append(e.tasks, &coTask{cc: cc, fv: fv, args: args, ctx: stackCtx{inTask: 1}})
}

func (t *coTask) run(e *Exec) {
	defer func() {
		r := recover()
		t.done = true
		if _, k := r.(taskKilled); k {
			r = nil
		}
		t.yield <- yieldMsg{pan: r}
	}()
	e.doCall(nil, t.cc, t.fv, t.args)
}

// switchTo runs t until it blocks or ends (called on the main stack only).
func (e *Exec) switchTo(t *coTask) {
	saved := e.saveCtx()
	e.cur = t
	e.restoreCtx(t.ctx)
	if !t.started {
		t.started = true
		t.resume = make(chan bool)
		t.yield = make(chan yieldMsg)
		go t.run(e)
	} else {
		t.resume <- true
	}
	msg := <-t.yield
	t.ctx = e.saveCtx()
	e.cur = nil
	e.restoreCtx(saved)
	if msg.pan != nil {
		panic(msg.pan)
	}
}

// runRunnable gives every runnable goroutine one turn, in creation order; reports whether any ran.
func (e *Exec) runRunnable() bool {
	progressed := false
	for i := 0; i < len(e.tasks); i++ {
		t := e.tasks[i]
		if t.done || (t.wait != nil && !t.wait()) {
			continue
		}
		t.wait = nil
		e.switchTo(t)
		progressed = true
	}
	return progressed
}

// fireTimer lets the first goroutine that is blocked in a timed wait time out (at most three times per goroutine and
// blocking call of the harness, so that a polling loop cannot spin for ever).
func (e *Exec) fireTimer(budget map[*coTask]int) bool {
	for _, t := range e.tasks {
		if t.done || t.wait == nil || !t.timed || budget[t] >= 3 {
			continue
		}
		budget[t]++
		t.timedOut = true
		t.wait = nil
		e.switchTo(t)
		return true
	}
	return false
}

// block waits until cond holds. In a goroutine it yields to the scheduler; on the harness' own stack it runs the other
// goroutines. It returns false when the wait ended by time-out (timed waits) or can never end (nothing left to run).
func (e *Exec) block(cond func() bool, timed bool) bool {
	if cond() {
		return true
	}
	if t := e.cur; t != nil {
		t.wait, t.timed, t.timedOut = cond, timed, false
		t.yield <- yieldMsg{}
		if !<-t.resume {
			panic(taskKilled{})
		}
		t.wait = nil
		if t.timedOut {
			t.timedOut = false
			return cond()
		}
		return true
	}
	budget := map[*coTask]int{}
	for pass := 0; pass < 5000; pass++ {
		if e.runRunnable() {
			if cond() {
				return true
			}
			continue
		}
		if cond() {
			return true
		}
		if !e.fireTimer(budget) {
			return false
		}
		if cond() {
			return true
		}
	}
	return false
}

// yieldNow: the running code gives the other goroutines a turn (time.Sleep, runtime.Gosched, end of the harness).
func (e *Exec) runPendingTasks() {
	if t := e.cur; t != nil {
		t.wait = nil
		t.yield <- yieldMsg{}
		if !<-t.resume {
			panic(taskKilled{})
		}
		return
	}
	budget := map[*coTask]int{}
	for pass := 0; pass < 5000; pass++ {
		if e.runRunnable() {
			continue
		}
		if !e.fireTimer(budget) {
			return
		}
	}
}

// killTasks ends the goroutines that are still blocked when a path is over.
func (e *Exec) killTasks() {
	for _, t := range e.tasks {
		if t.started && !t.done {
			func() {
				defer func() { recover() }()
				t.resume <- false
				<-t.yield
			}()
		}
	}
	e.tasks = nil
	e.cur = nil
}
