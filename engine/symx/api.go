package symx

import (
	"fmt"
	"go/types"
	"math/big"
	"strconv"
	"strings"

	"golang.org/x/tools/go/ssa"
	"verif/engine/sym"
)

type intrinsic func(e *Exec, fn *ssa.Function, args []Value) Value

var harnessAPI map[string]intrinsic

func init() {
	harnessAPI = map[string]intrinsic{
		"vU8":     func(e *Exec, fn *ssa.Function, a []Value) Value { return e.nondetInt(a[0], "u8", 8) },
		"vU16":    func(e *Exec, fn *ssa.Function, a []Value) Value { return e.nondetInt(a[0], "u16", 16) },
		"vU32":    func(e *Exec, fn *ssa.Function, a []Value) Value { return e.nondetInt(a[0], "u32", 32) },
		"vU64":    func(e *Exec, fn *ssa.Function, a []Value) Value { return e.nondetInt(a[0], "u64", 64) },
		"vI64":    func(e *Exec, fn *ssa.Function, a []Value) Value { return e.nondetInt(a[0], "i64", 64) },
		"vI32":    func(e *Exec, fn *ssa.Function, a []Value) Value { return e.nondetInt(a[0], "i32", 32) },
		"vInt":    func(e *Exec, fn *ssa.Function, a []Value) Value { return e.nondetInt(a[0], "int", 64) },
		"vBool":   func(e *Exec, fn *ssa.Function, a []Value) Value { return e.nondetInt(a[0], "bool", 0) },
		"vBytes":  apiBytes,
		"vString": apiString,
		"vParam":  apiParam,
		"vAssume": func(e *Exec, fn *ssa.Function, a []Value) Value { e.assume(a[0].(*sym.Term)); return nil },
		"vCheck": func(e *Exec, fn *ssa.Function, a []Value) Value {
			e.checkObl(a[0].(*sym.Term), e.mustConcreteStr(a[1], "vCheck id"))
			return nil
		},
		"vCover": func(e *Exec, fn *ssa.Function, a []Value) Value {
			e.rep.Covers[e.mustConcreteStr(a[0], "vCover id")] = true
			return nil
		},
		"vChoice": func(e *Exec, fn *ssa.Function, a []Value) Value {
			n := e.mustConcreteInt(a[1], "vChoice n")
			t := e.nondetInt(a[0], "int", 64).(*sym.Term)
			e.assume(e.tb.ULt(t, e.tb.Const(64, uint64(n))))
			return e.tb.Const(64, e.concretize(t, "choice"))
		},
		"vPanics": apiPanics,
		"vNativeRounds": func(e *Exec, fn *ssa.Function, a []Value) Value { return e.tb.Const(64, 1) },
		"vIte8": func(e *Exec, fn *ssa.Function, a []Value) Value {
			return e.tb.Ite(a[0].(*sym.Term), a[1].(*sym.Term), a[2].(*sym.Term))
		},
		"vIte32": func(e *Exec, fn *ssa.Function, a []Value) Value {
			return e.tb.Ite(a[0].(*sym.Term), a[1].(*sym.Term), a[2].(*sym.Term))
		},
		"vIte64": func(e *Exec, fn *ssa.Function, a []Value) Value {
			return e.tb.Ite(a[0].(*sym.Term), a[1].(*sym.Term), a[2].(*sym.Term))
		},
		"vAnd": func(e *Exec, fn *ssa.Function, a []Value) Value { return e.tb.BAnd(a[0].(*sym.Term), a[1].(*sym.Term)) },
		"vOr":  func(e *Exec, fn *ssa.Function, a []Value) Value { return e.tb.BOr(a[0].(*sym.Term), a[1].(*sym.Term)) },
		"vImplies": func(e *Exec, fn *ssa.Function, a []Value) Value {
			return e.tb.Implies(a[0].(*sym.Term), a[1].(*sym.Term))
		},
		"vBytesEq":  apiBytesEq,
		"vStrEq":    func(e *Exec, fn *ssa.Function, a []Value) Value { return e.strEq(a[0].(Str), a[1].(Str)) },
		"vSymbolic": func(e *Exec, fn *ssa.Function, a []Value) Value { return e.tb.True },
		"vConcretize": func(e *Exec, fn *ssa.Function, a []Value) Value {
			t := a[0].(*sym.Term)
			return e.tb.Const(64, e.concretize(t, "harness"))
		},
		"vSameType": func(e *Exec, fn *ssa.Function, a []Value) Value {
			x, y := a[0].(Iface), a[1].(Iface)
			if x.T == nil || y.T == nil {
				return e.tb.Bool(x.T == nil && y.T == nil)
			}
			return e.tb.Bool(types.Identical(x.T, y.T))
		},
		"vMapOrderReverse": func(e *Exec, fn *ssa.Function, a []Value) Value {
			e.mapOrderReverse = a[0].(*sym.Term).IsTrue()
			return nil
		},
	}
}

func (e *Exec) mustConcreteStr(v Value, what string) string {
	s, ok := concreteString(v.(Str))
	if !ok {
		panic(unsupported(what + " must be a constant string"))
	}
	return s
}

func (e *Exec) mustConcreteInt(v Value, what string) int64 {
	t := v.(*sym.Term)
	if !t.IsConst() {
		panic(unsupported(what + " must be concrete"))
	}
	return t.Int64()
}

func (e *Exec) registerInput(name, kind string, n int) {
	if e.inputSeen[name] {
		return
	}
	e.inputSeen[name] = true
	e.inputs = append(e.inputs, InputRec{name, kind, n})
}

func (e *Exec) nondetInt(nameV Value, kind string, w int) Value {
	name := e.mustConcreteStr(nameV, "nondet name")
	e.registerInput(name, kind, 0)
	if c, ok := e.cfg.Concrete[name]; ok {
		v, _ := new(big.Int).SetString(c, 10)
		if w == 0 {
			return e.tb.Bool(v.Sign() != 0)
		}
		return e.tb.ConstBig(w, v)
	}
	return e.tb.Var(name, w)
}

func (e *Exec) nondetBytes(name string, n int, kind string) []*sym.Term {
	e.registerInput(name, kind, n)
	out := make([]*sym.Term, n)
	if c, ok := e.cfg.Concrete[name]; ok {
		for i := 0; i < n; i++ {
			b, _ := strconv.ParseUint(c[2*i:2*i+2], 16, 8)
			out[i] = e.byteConst(byte(b))
		}
		return out
	}
	for i := 0; i < n; i++ {
		out[i] = e.tb.Var(fmt.Sprintf("%s[%d]", name, i), 8)
	}
	return out
}

func apiBytes(e *Exec, fn *ssa.Function, a []Value) Value {
	name := e.mustConcreteStr(a[0], "vBytes name")
	n := int(e.mustConcreteInt(a[1], "vBytes length"))
	return e.newByteSlice(e.nondetBytes(name, n, "bytes"))
}

func apiString(e *Exec, fn *ssa.Function, a []Value) Value {
	name := e.mustConcreteStr(a[0], "vString name")
	n := int(e.mustConcreteInt(a[1], "vString length"))
	return Str{B: e.nondetBytes(name, n, "string")}
}

func apiParam(e *Exec, fn *ssa.Function, a []Value) Value {
	name := e.mustConcreteStr(a[0], "vParam name")
	v, ok := e.cfg.Params[name]
	if !ok {
		panic(unsupported("harness parameter " + name + " not configured"))
	}
	return e.tb.ConstI(64, int64(v))
}

func apiBytesEq(e *Exec, fn *ssa.Function, a []Value) Value {
	x, y := a[0].(Slice), a[1].(Slice)
	if x.Len != y.Len {
		return e.tb.False
	}
	if x.Len == 0 {
		return e.tb.True
	}
	return e.strEq(Str{e.bytesOf(x)}, Str{e.bytesOf(y)})
}

// vPanics(f) runs f and reports whether it panicked (run-time or explicit).
func apiPanics(e *Exec, fn *ssa.Function, a []Value) (res Value) {
	cl := a[0].(*Closure)
	e.catchDepth++
	depth := e.depth
	defer func() {
		e.catchDepth--
		if r := recover(); r != nil {
			if _, ok := r.(*targetPanic); ok {
				e.depth = depth
				res = e.tb.True
				return
			}
			panic(r)
		}
	}()
	e.callFunction(cl.Fn, nil, cl.Bind)
	return e.tb.False
}

// abstractCall replaces a call by an uninterpreted function of its (flattened, bit-vector) arguments.
// Spec forms: "SYM" (pure function, one result) and "SYM@inplace:<off>:<n>" (method whose receiver
// cells [off,off+n) are both read and overwritten, no result).
func (e *Exec) abstractCall(fn *ssa.Function, spec string, args []Value) Value {
	e.rep.Stubs["abstract "+fn.String()+" => "+spec]++
	symName := spec
	if i := strings.Index(spec, "@blockfn"); i >= 0 {
		// method (recv, dst, src []byte): dst[:len(src)] = SYM(src)
		symName = spec[:i]
		dst, src := args[1].(Slice), args[2].(Slice)
		if dst.Len < src.Len {
			panic(&targetPanic{val: e.strConst("block function: output smaller than input"), site: e.where()})
		}
		if src.Len == 0 {
			return nil
		}
		in := e.tb.Concat(e.bytesOf(src)...)
		whole := e.tb.UF(ufName(symName, []*sym.Term{in}), in.W, in)
		for k := 0; k < src.Len; k++ {
			e.setCell(dst.Obj, dst.Off+k, e.tb.Extract(whole, in.W-1-8*k, in.W-8-8*k))
		}
		return nil
	}
	if i := strings.Index(spec, "@inplace:"); i >= 0 {
		symName = spec[:i]
		var off, n int
		fmt.Sscanf(spec[i+len("@inplace:"):], "%d:%d", &off, &n)
		recv := args[0].(Ptr)
		e.nilDeref(recv)
		var st []*sym.Term
		w := 0
		for k := 0; k < n; k++ {
			t := recv.Obj.Cells[recv.Off+off+k].(*sym.Term)
			st = append(st, t)
			w += t.W
		}
		ts := []*sym.Term{e.tb.Concat(st...)}
		for _, a := range args[1:] {
			ts = append(ts, e.flattenTerms(a)...)
		}
		whole := e.tb.UF(ufName(symName, ts), w, ts...)
		pos := w
		for k := 0; k < n; k++ {
			cw := st[k].W
			e.setCell(recv.Obj, recv.Off+off+k, e.tb.Extract(whole, pos-1, pos-cw))
			pos -= cw
		}
		return nil
	}
	var ts []*sym.Term
	for _, a := range args {
		ts = append(ts, e.flattenTerms(a)...)
	}
	res := fn.Signature.Results()
	if res.Len() != 1 {
		panic(unsupported("abstracted function must have exactly one result: " + fn.String()))
	}
	return e.ufResult(symName, res.At(0).Type(), ts)
}

func ufName(symName string, ts []*sym.Term) string {
	for _, t := range ts {
		symName += fmt.Sprintf("_%d", t.W)
	}
	return symName
}

func (e *Exec) ufResult(symName string, rt types.Type, ts []*sym.Term) Value {
	name := ufName(symName, ts)
	if w := widthOf(rt); w > 0 {
		return e.tb.UF(name, w, ts...)
	}
	if sl, ok := rt.Underlying().(*types.Slice); ok && widthOf(sl.Elem()) == 8 {
		panic(unsupported("abstract result []byte needs a length: use an array result"))
	}
	if arr, ok := rt.Underlying().(*types.Array); ok {
		if ew := widthOf(arr.Elem()); ew > 0 {
			n := int(arr.Len())
			whole := e.tb.UF(name, ew*n, ts...)
			out := make(Agg, n)
			for i := 0; i < n; i++ {
				out[i] = e.tb.Extract(whole, ew*(n-i)-1, ew*(n-i-1))
			}
			return out
		}
	}
	panic(unsupported("abstract result type " + rt.String()))
}

// flattenTerms turns an argument into bit-vector terms (byte slices become one wide concat).
func (e *Exec) flattenTerms(v Value) []*sym.Term {
	switch x := v.(type) {
	case *sym.Term:
		if x.W == 0 {
			return []*sym.Term{e.tb.Ite(x, e.tb.Const(1, 1), e.tb.Const(1, 0))}
		}
		return []*sym.Term{x}
	case Slice:
		if x.Len == 0 {
			return []*sym.Term{e.tb.Const(1, 0)}
		}
		var parts []*sym.Term
		for i := 0; i < x.Len; i++ {
			for j := 0; j < x.Stride; j++ {
				parts = append(parts, e.flattenTerms(x.Obj.Cells[x.Off+i*x.Stride+j])...)
			}
		}
		return []*sym.Term{e.tb.Concat(parts...)}
	case Str:
		if len(x.B) == 0 {
			return []*sym.Term{e.tb.Const(1, 0)}
		}
		return []*sym.Term{e.tb.Concat(x.B...)}
	case Agg:
		var parts []*sym.Term
		for _, l := range x {
			parts = append(parts, e.flattenTerms(l)...)
		}
		return []*sym.Term{e.tb.Concat(parts...)}
	}
	panic(unsupported(fmt.Sprintf("cannot abstract over argument of kind %T", v)))
}
