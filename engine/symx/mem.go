package symx

import (
	"fmt"
	"go/types"

	"verif/engine/sym"
)

func (e *Exec) newObject(n int, name string) *Object {
	e.nextObj++
	return &Object{ID: e.nextObj, Cells: make([]Value, n), Epoch: e.epoch, Name: name}
}

func (e *Exec) allocType(t types.Type, name string) *Object {
	leaves := e.zeroLeaves(t, nil)
	o := e.newObject(0, name)
	o.Cells = leaves
	return o
}

// setCell writes one cell, logging an undo entry for objects older than the current path.
func (e *Exec) setCell(o *Object, i int, v Value) {
	if o.Epoch != e.epoch {
		old := o.Cells[i]
		e.undo = append(e.undo, func() { o.Cells[i] = old })
	}
	o.Cells[i] = v
}

func (e *Exec) nilDeref(p Ptr) {
	if p.Obj == nil {
		e.definitePanic("nil-deref", "nil pointer dereference")
	}
}

// loadLeaf reads a single cell through a pointer (handles a symbolic index).
func (e *Exec) loadLeaf(p Ptr, rel int) Value {
	if p.Sym == nil {
		return p.Obj.Cells[p.Off+rel]
	}
	s := p.Sym
	// ite chain over candidates
	first := p.Obj.Cells[p.Off+rel]
	if _, ok := first.(*sym.Term); !ok {
		// non-term cells: concretise the index
		idx := int(e.concretize(s.Idx, "index"))
		return p.Obj.Cells[p.Off+idx*s.Stride+rel]
	}
	res := p.Obj.Cells[p.Off+(s.Count-1)*s.Stride+rel].(*sym.Term)
	for i := s.Count - 2; i >= 0; i-- {
		c := p.Obj.Cells[p.Off+i*s.Stride+rel].(*sym.Term)
		res = e.tb.Ite(e.tb.Eq(s.Idx, e.tb.Const(s.Idx.W, uint64(i))), c, res)
	}
	return res
}

func (e *Exec) storeLeaf(p Ptr, rel int, v Value) {
	if len(e.guard) > 0 {
		// inside an if-converted region: the store takes effect only when the region's guard holds
		nv, ok := v.(*sym.Term)
		if !ok {
			panic(unsupported("guarded store of a non-integer value"))
		}
		old, ok := e.loadLeaf(p, rel).(*sym.Term)
		if !ok {
			panic(unsupported("guarded store over a non-integer cell"))
		}
		v = e.tb.Ite(e.tb.BAnd(e.guard...), nv, old)
	}
	if p.Sym == nil {
		e.setCell(p.Obj, p.Off+rel, v)
		return
	}
	s := p.Sym
	nv, ok := v.(*sym.Term)
	if !ok {
		idx := int(e.concretize(s.Idx, "index"))
		e.setCell(p.Obj, p.Off+idx*s.Stride+rel, v)
		return
	}
	for i := 0; i < s.Count; i++ {
		ci := p.Off + i*s.Stride + rel
		old := p.Obj.Cells[ci].(*sym.Term)
		e.setCell(p.Obj, ci, e.tb.Ite(e.tb.Eq(s.Idx, e.tb.Const(s.Idx.W, uint64(i))), nv, old))
	}
}

// load reads a value of type t through p.
func (e *Exec) load(p Ptr, t types.Type) Value {
	e.nilDeref(p)
	n := cellsOf(t)
	if !isAggregate(t) {
		return e.loadLeaf(p, 0)
	}
	out := make(Agg, n)
	for i := 0; i < n; i++ {
		out[i] = e.loadLeaf(p, i)
	}
	return out
}

func (e *Exec) store(p Ptr, t types.Type, v Value) {
	e.nilDeref(p)
	if a, ok := v.(Agg); ok {
		for i, x := range a {
			e.storeLeaf(p, i, x)
		}
		return
	}
	if isAggregate(t) {
		panic(fmt.Sprintf("store: aggregate type %s with non-agg value %T", t, v))
	}
	e.storeLeaf(p, 0, v)
}

// sliceElems returns the leaf cells of element i of s.
func sliceCell(s Slice, i int) int { return s.Off + i*s.Stride }

// bytesOf returns the 8-bit terms of a []byte slice value.
func (e *Exec) bytesOf(s Slice) []*sym.Term {
	out := make([]*sym.Term, s.Len)
	for i := 0; i < s.Len; i++ {
		out[i] = s.Obj.Cells[s.Off+i*s.Stride].(*sym.Term)
	}
	return out
}

// newByteSlice allocates a fresh []byte holding the given terms.
func (e *Exec) newByteSlice(b []*sym.Term) Slice {
	o := e.newObject(len(b), "bytes")
	for i, t := range b {
		o.Cells[i] = t
	}
	return Slice{Obj: o, Off: 0, Len: len(b), Cap: len(b), Stride: 1}
}

func (e *Exec) newSliceOf(elem types.Type, n, cp int) Slice {
	stride := cellsOf(elem)
	o := e.newObject(0, "make")
	one := e.zeroLeaves(elem, nil)
	cells := make([]Value, 0, cp*stride)
	for i := 0; i < cp; i++ {
		cells = append(cells, one...)
	}
	o.Cells = cells
	return Slice{Obj: o, Off: 0, Len: n, Cap: cp, Stride: stride}
}

// growCap mimics runtime.growslice closely enough for aliasing behaviour:
// doubling below 256 elements, then 1.25x+192, rounded up to malloc size classes for bytes.
func growCap(oldCap, needed, elemSize int) int {
	newcap := oldCap
	doublecap := newcap + newcap
	if needed > doublecap {
		newcap = needed
	} else {
		const threshold = 256
		if oldCap < threshold {
			newcap = doublecap
		} else {
			for newcap < needed {
				newcap += (newcap + 3*threshold) >> 2
			}
		}
	}
	if newcap < needed {
		newcap = needed
	}
	// size-class rounding
	bytes := newcap * elemSize
	if elemSize > 0 {
		rb := roundupsize(bytes)
		newcap = rb / elemSize
	}
	return newcap
}

var sizeClasses = []int{0, 8, 16, 24, 32, 48, 64, 80, 96, 112, 128, 144, 160, 176, 192, 208, 224, 240, 256, 288, 320, 352, 384, 416, 448, 480, 512, 576, 640, 704, 768, 896, 1024, 1152, 1280, 1408, 1536, 1792, 2048, 2304, 2688, 3072, 3200, 3456, 4096, 4864, 5376, 6144, 6528, 6784, 6912, 8192, 9472, 9728, 10240, 10880, 12288, 13568, 14336, 16384, 18432, 19072, 20480, 21760, 24576, 27264, 28672, 32768}

func roundupsize(n int) int {
	if n <= 32768 {
		for _, c := range sizeClasses {
			if c >= n {
				return c
			}
		}
	}
	// page rounding
	return (n + 8191) &^ 8191
}

// goSize approximates the byte size of a Go type for growslice size classes.
func goSize(t types.Type) int {
	sz := types.SizesFor("gc", "amd64")
	return int(sz.Sizeof(t))
}
