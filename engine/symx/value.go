// Package symx is the go/ssa symbolic executor.
package symx

import (
	"fmt"
	"go/types"

	"golang.org/x/tools/go/ssa"
	"verif/engine/sym"
)

// Value is one of:
//
//	*sym.Term   integers (W = bit width) and booleans (W = 0)
//	Ptr, Slice, Str, Iface, *MapObj, *Closure, Agg, Tuple, *ChanObj, Float, *RangeIter
type Value interface{}

// Object is a heap/stack object: a flat vector of leaf cells.
type Object struct {
	ID     int
	Cells  []Value
	Epoch  int // path epoch in which it was created (0 = persistent prelude)
	Name   string
	Base   *sym.Term // symbolic address (lazily created, rc4 overlap guard)
	Frozen bool
}

// SymIdx is a one-level symbolic index component of a pointer: Off + Idx*Stride, Idx < Count.
type SymIdx struct {
	Idx    *sym.Term // 64-bit
	Stride int
	Count  int
}

type Ptr struct {
	Obj *Object
	Off int
	Sym *SymIdx
	// for pointers to maps' values etc. not needed
}

func (p Ptr) IsNil() bool { return p.Obj == nil }

// Slice: a view of Len elements (each Stride cells) starting at cell Off.
type Slice struct {
	Obj    *Object
	Off    int
	Len    int
	Cap    int
	Stride int
}

func (s Slice) IsNil() bool { return s.Obj == nil }

// Str is an immutable byte string; every element is an 8-bit term.
type Str struct {
	B []*sym.Term
}

type Iface struct {
	T types.Type // dynamic type; nil = nil interface
	V Value
}

type mapEntry struct {
	K Value
	V Value // Agg or leaf
}

type MapObj struct {
	ID      int
	Entries []mapEntry
	Epoch   int
}

type Closure struct {
	Fn   *ssa.Function
	Bind []Value
	// Builtin-ish bound method on interface value
}

type Agg []Value   // flattened leaves of a struct or array value
type Tuple []Value // multi-value result

type Float float64

type ChanObj struct {
	ID     int
	Buf    []Value
	Cap    int
	Closed bool
	Timer  bool // created by time.After: ready only when nothing else can run
}

type RangeIter struct {
	Kind int // 0 string, 1 map
	S    Str
	M    *MapObj
	Keys []mapEntry
	Pos  int
}

// ------------------------------------------------------------------ layout

func isNamedTime(t types.Type) bool {
	if n, ok := t.(*types.Named); ok {
		o := n.Obj()
		return o.Pkg() != nil && o.Pkg().Path() == "time" && o.Name() == "Time"
	}
	return false
}

// cellsOf returns how many leaf cells a value of type t occupies.
func cellsOf(t types.Type) int {
	switch u := t.Underlying().(type) {
	case *types.Struct:
		n := 0
		for i := 0; i < u.NumFields(); i++ {
			n += cellsOf(u.Field(i).Type())
		}
		return n
	case *types.Array:
		return int(u.Len()) * cellsOf(u.Elem())
	case *types.Tuple:
		n := 0
		for i := 0; i < u.Len(); i++ {
			n += cellsOf(u.At(i).Type())
		}
		return n
	}
	return 1
}

func fieldOffset(st *types.Struct, idx int) int {
	off := 0
	for i := 0; i < idx; i++ {
		off += cellsOf(st.Field(i).Type())
	}
	return off
}

func isAggregate(t types.Type) bool {
	switch t.Underlying().(type) {
	case *types.Struct, *types.Array:
		return true
	}
	return false
}

// widthOf returns the bit width of a basic integer/bool type (0 for bool), -1 otherwise.
func widthOf(t types.Type) int {
	b, ok := t.Underlying().(*types.Basic)
	if !ok {
		return -1
	}
	switch b.Kind() {
	case types.Bool, types.UntypedBool:
		return 0
	case types.Int8, types.Uint8:
		return 8
	case types.Int16, types.Uint16:
		return 16
	case types.Int32, types.Uint32, types.UntypedRune:
		return 32
	case types.Int, types.Uint, types.Int64, types.Uint64, types.Uintptr, types.UntypedInt:
		return 64
	case types.UnsafePointer:
		return -1
	}
	return -1
}

func isSigned(t types.Type) bool {
	b, ok := t.Underlying().(*types.Basic)
	if !ok {
		return false
	}
	return b.Info()&types.IsInteger != 0 && b.Info()&types.IsUnsigned == 0
}

func isFloat(t types.Type) bool {
	b, ok := t.Underlying().(*types.Basic)
	return ok && b.Info()&types.IsFloat != 0
}

func isString(t types.Type) bool {
	b, ok := t.Underlying().(*types.Basic)
	return ok && b.Info()&types.IsString != 0
}

// zeroLeaves appends the zero value of t as leaf cells.
func (e *Exec) zeroLeaves(t types.Type, out []Value) []Value {
	switch u := t.Underlying().(type) {
	case *types.Struct:
		for i := 0; i < u.NumFields(); i++ {
			out = e.zeroLeaves(u.Field(i).Type(), out)
		}
		return out
	case *types.Array:
		n := int(u.Len())
		if n == 0 {
			return out
		}
		first := len(out)
		out = e.zeroLeaves(u.Elem(), out)
		per := len(out) - first
		for i := 1; i < n; i++ {
			out = append(out, out[first:first+per]...)
		}
		return out
	case *types.Basic:
		if w := widthOf(t); w >= 0 {
			if w == 0 {
				return append(out, e.tb.False)
			}
			return append(out, e.tb.Const(w, 0))
		}
		if isString(t) {
			return append(out, Str{})
		}
		if isFloat(t) {
			return append(out, Float(0))
		}
		if u.Kind() == types.UnsafePointer {
			return append(out, Ptr{})
		}
		if u.Kind() == types.UntypedNil {
			return append(out, Ptr{})
		}
		panic(unsupported("zero of basic type " + t.String()))
	case *types.Pointer:
		return append(out, Ptr{})
	case *types.Slice:
		return append(out, Slice{})
	case *types.Interface:
		return append(out, Iface{})
	case *types.Map:
		return append(out, (*MapObj)(nil))
	case *types.Signature:
		return append(out, (*Closure)(nil))
	case *types.Chan:
		return append(out, (*ChanObj)(nil))
	}
	panic(unsupported("zero of type " + t.String()))
}

// zeroValue returns the zero value of t as a register value.
func (e *Exec) zeroValue(t types.Type) Value {
	if isAggregate(t) {
		return Agg(e.zeroLeaves(t, nil))
	}
	if tup, ok := t.(*types.Tuple); ok {
		var out Tuple
		for i := 0; i < tup.Len(); i++ {
			out = append(out, e.zeroValue(tup.At(i).Type()))
		}
		return out
	}
	return e.zeroLeaves(t, nil)[0]
}

// flatten a register value of type t into leaves.
func flatten(v Value, out []Value) []Value {
	if a, ok := v.(Agg); ok {
		return append(out, a...)
	}
	return append(out, v)
}

// unflatten builds a register value of type t from leaves.
func unflatten(t types.Type, leaves []Value) Value {
	if isAggregate(t) {
		return Agg(append([]Value{}, leaves...))
	}
	return leaves[0]
}

type unsupportedErr struct{ msg string }

func unsupported(msg string) unsupportedErr { return unsupportedErr{msg} }
func (u unsupportedErr) Error() string      { return "unsupported: " + u.msg }

func (e *Exec) strConst(s string) Str {
	b := make([]*sym.Term, len(s))
	for i := 0; i < len(s); i++ {
		b[i] = e.byteConst(s[i])
	}
	return Str{b}
}

func (e *Exec) byteConst(b byte) *sym.Term {
	return e.bytes[b]
}

// concreteString returns the Go string if every byte is constant.
func concreteString(s Str) (string, bool) {
	buf := make([]byte, len(s.B))
	for i, t := range s.B {
		if !t.IsConst() {
			return "", false
		}
		buf[i] = byte(t.Uint64())
	}
	return string(buf), true
}

func describe(v Value) string {
	switch x := v.(type) {
	case *sym.Term:
		return x.String()
	case Str:
		if s, ok := concreteString(x); ok {
			return fmt.Sprintf("%q", s)
		}
		return fmt.Sprintf("str[%d]", len(x.B))
	case Ptr:
		if x.Obj == nil {
			return "nil"
		}
		return fmt.Sprintf("&obj%d+%d", x.Obj.ID, x.Off)
	case Slice:
		if x.Obj == nil {
			return "nilslice"
		}
		return fmt.Sprintf("obj%d[%d:+%d cap %d]", x.Obj.ID, x.Off, x.Len, x.Cap)
	case Iface:
		if x.T == nil {
			return "nil-iface"
		}
		return fmt.Sprintf("iface(%s)", x.T)
	case Agg:
		return fmt.Sprintf("agg[%d]", len(x))
	case Tuple:
		return fmt.Sprintf("tuple[%d]", len(x))
	}
	return fmt.Sprintf("%T", v)
}
