package symx

import (
	"encoding/asn1"
	"fmt"
	"go/types"

	"golang.org/x/tools/go/ssa"
	"verif/engine/sym"
)

// encoding/asn1 is reflection-driven and cannot be executed symbolically. For the three value shapes the library
// marshals (OBJECT IDENTIFIER, SPNEGO NegTokenInit, NegTokenResp) the real encoding/asn1 is run natively on a
// template: all structure (tags, lengths, OIDs, enumerations) is concrete, the contents of OCTET STRING fields are
// placeholders. DER copies OCTET STRING contents verbatim, so the positions where two runs with different
// placeholder bytes differ are exactly the content positions, in order; the symbolic bytes are substituted there.

type nBitString = asn1.BitString

type nNegTokenInit struct {
	MechTypes    []asn1.ObjectIdentifier `asn1:"explicit,tag:0"`
	ReqFlags     nBitString              `asn1:"explicit,optional,tag:1"`
	MechToken    []byte                  `asn1:"explicit,optional,tag:2"`
	MechTokenMIC []byte                  `asn1:"explicit,optional,tag:3"`
}

type nNegTokenResp struct {
	NegState      asn1.Enumerated       `asn1:"explicit,optional,tag:0"`
	SupportedMech asn1.ObjectIdentifier `asn1:"explicit,optional,tag:1"`
	ResponseToken []byte                `asn1:"explicit,optional,tag:2"`
	MechListMIC   []byte                `asn1:"explicit,optional,tag:3"`
}

func typeShortName(t types.Type) string {
	if p, ok := t.(*types.Pointer); ok {
		t = p.Elem()
	}
	if n, ok := t.(*types.Named); ok {
		return n.Obj().Name()
	}
	return t.String()
}

func (e *Exec) nativeOID(v Value) asn1.ObjectIdentifier {
	s := v.(Slice)
	out := make(asn1.ObjectIdentifier, s.Len)
	for i := 0; i < s.Len; i++ {
		out[i] = int(e.concretize(s.Obj.Cells[s.Off+i].(*sym.Term), "oid-arc"))
	}
	return out
}

func (e *Exec) engineOID(o asn1.ObjectIdentifier) Value {
	if o == nil {
		return Slice{}
	}
	obj := e.newObject(len(o), "oid")
	for i, a := range o {
		obj.Cells[i] = e.tb.ConstI(64, int64(a))
	}
	return Slice{Obj: obj, Len: len(o), Cap: len(o), Stride: 1}
}

// byteField returns the terms of a []byte leaf and a native placeholder of the same length.
func (e *Exec) byteField(v Value, fill byte) ([]*sym.Term, []byte) {
	s := v.(Slice)
	if s.Obj == nil {
		return nil, nil
	}
	ts := e.bytesOf(Slice{Obj: s.Obj, Off: s.Off, Len: s.Len, Cap: s.Len, Stride: 1})
	nb := make([]byte, len(ts))
	for i, t := range ts {
		if t.IsConst() {
			nb[i] = byte(t.Uint64())
		} else {
			nb[i] = fill
		}
	}
	return ts, nb
}

// marshalTemplate runs build(fill) twice and merges: positions where the outputs differ carry the symbolic content bytes in order.
func (e *Exec) marshalTemplate(build func(fill byte) ([]byte, error), content []*sym.Term) ([]*sym.Term, error) {
	a, err := build(0xA5)
	if err != nil {
		return nil, err
	}
	b, err := build(0x5A)
	if err != nil || len(a) != len(b) {
		return nil, fmt.Errorf("template runs disagree")
	}
	var symc []*sym.Term
	for _, t := range content {
		if !t.IsConst() {
			symc = append(symc, t)
		}
	}
	out := make([]*sym.Term, len(a))
	k := 0
	for i := range a {
		if a[i] != b[i] {
			if k >= len(symc) {
				return nil, fmt.Errorf("template positions exceed symbolic content")
			}
			out[i] = symc[k]
			k++
		} else {
			out[i] = e.byteConst(a[i])
		}
	}
	if k != len(symc) {
		return nil, fmt.Errorf("template positions (%d) do not cover the symbolic content (%d)", k, len(symc))
	}
	return out, nil
}

func init() {
	intrinsics["encoding/asn1.Marshal"] = func(e *Exec, fn *ssa.Function, a []Value) Value {
		ifc := a[0].(Iface)
		if ifc.T == nil {
			return Tuple{Slice{}, e.errorValue(e.strConst("asn1: cannot marshal nil value"))}
		}
		var out []*sym.Term
		var err error
		switch typeShortName(ifc.T) {
		case "ObjectIdentifier":
			oid := e.nativeOID(ifc.V)
			var nb []byte
			nb, err = asn1.Marshal(oid)
			for _, x := range nb {
				out = append(out, e.byteConst(x))
			}
		case "NegTokenInit":
			ag := ifc.V.(Agg) // MechTypes, ReqFlags.Bytes, ReqFlags.BitLength, MechToken, MechTokenMIC
			var mechs []asn1.ObjectIdentifier
			ms := ag[0].(Slice)
			for i := 0; i < ms.Len; i++ {
				mechs = append(mechs, e.nativeOID(ms.Obj.Cells[ms.Off+i]))
			}
			_, flagBytes := e.byteField(ag[1], 0)
			bitLen := int(e.concretize(ag[2].(*sym.Term), "bitlen"))
			tok, _ := e.byteField(ag[3], 0)
			mic, _ := e.byteField(ag[4], 0)
			out, err = e.marshalTemplate(func(fill byte) ([]byte, error) {
				_, t := e.byteField(ag[3], fill)
				_, m := e.byteField(ag[4], fill)
				return asn1.Marshal(nNegTokenInit{MechTypes: mechs, ReqFlags: nBitString{Bytes: flagBytes, BitLength: bitLen}, MechToken: t, MechTokenMIC: m})
			}, append(append([]*sym.Term{}, tok...), mic...))
		case "NegTokenResp":
			ag := ifc.V.(Agg) // NegState, SupportedMech, ResponseToken, MechListMIC
			state := asn1.Enumerated(e.concretize(ag[0].(*sym.Term), "negstate"))
			mech := e.nativeOID(ag[1])
			tok, _ := e.byteField(ag[2], 0)
			mic, _ := e.byteField(ag[3], 0)
			out, err = e.marshalTemplate(func(fill byte) ([]byte, error) {
				_, t := e.byteField(ag[2], fill)
				_, m := e.byteField(ag[3], fill)
				return asn1.Marshal(nNegTokenResp{NegState: state, SupportedMech: mech, ResponseToken: t, MechListMIC: m})
			}, append(append([]*sym.Term{}, tok...), mic...))
		default:
			panic(unsupported("asn1.Marshal of " + ifc.T.String()))
		}
		if err != nil {
			return Tuple{Slice{}, e.errorValue(e.strConst("asn1: " + err.Error()))}
		}
		e.rep.Stubs["encoding/asn1.Marshal run natively on a template of "+typeShortName(ifc.T)+" (structure concrete, OCTET STRING contents substituted)"]++
		return Tuple{e.newByteSlice(out), Iface{}}
	}

	intrinsics["encoding/asn1.Unmarshal"] = func(e *Exec, fn *ssa.Function, a []Value) Value {
		in := a[0].(Slice)
		ifc := a[1].(Iface)
		if ifc.T == nil {
			return Tuple{Slice{}, e.errorValue(e.strConst("asn1: Unmarshal recipient value is nil"))}
		}
		dst := ifc.V.(Ptr)
		var ts []*sym.Term
		if in.Len > 0 {
			ts = e.bytesOf(in)
		}
		native := func(fill byte) []byte {
			nb := make([]byte, len(ts))
			for i, t := range ts {
				if t.IsConst() {
					nb[i] = byte(t.Uint64())
				} else {
					nb[i] = fill
				}
			}
			return nb
		}
		var symPos []int
		for i, t := range ts {
			if !t.IsConst() {
				symPos = append(symPos, i)
			}
		}
		kind := typeShortName(ifc.T)
		type result struct {
			restLen int
			err     error
			oid     asn1.ObjectIdentifier
			ini     nNegTokenInit
			resp    nNegTokenResp
		}
		run := func(fill byte) result {
			var r result
			var rest []byte
			switch kind {
			case "ObjectIdentifier":
				rest, r.err = asn1.Unmarshal(native(fill), &r.oid)
			case "NegTokenInit":
				rest, r.err = asn1.Unmarshal(native(fill), &r.ini)
			case "NegTokenResp":
				rest, r.err = asn1.Unmarshal(native(fill), &r.resp)
			default:
				panic(unsupported("asn1.Unmarshal into " + ifc.T.String()))
			}
			r.restLen = len(rest)
			return r
		}
		ra, rb := run(0xA5), run(0x5A)
		sameShape := (ra.err == nil) == (rb.err == nil) && ra.restLen == rb.restLen &&
			len(ra.ini.MechToken) == len(rb.ini.MechToken) && len(ra.ini.MechTokenMIC) == len(rb.ini.MechTokenMIC) &&
			len(ra.resp.ResponseToken) == len(rb.resp.ResponseToken) && len(ra.resp.MechListMIC) == len(rb.resp.MechListMIC) &&
			ra.oid.Equal(rb.oid) && ra.resp.SupportedMech.Equal(rb.resp.SupportedMech) && ra.resp.NegState == rb.resp.NegState &&
			len(ra.ini.MechTypes) == len(rb.ini.MechTypes)
		if !sameShape {
			// symbolic bytes decide the DER structure: out of reach. Totality harnesses explore both outcomes abstractly.
			e.rep.Stubs["encoding/asn1.Unmarshal on input whose DER structure is symbolic: abstracted to 'error, or success with empty fields' (decoders behind encoding/asn1 are outside the claim)"]++
			if e.choice(2) == 0 {
				return Tuple{Slice{}, e.errorValue(e.strConst("asn1: structure error (abstract)"))}
			}
			return Tuple{Slice{}, Iface{}}
		}
		if ra.err != nil {
			return Tuple{Slice{}, e.errorValue(e.strConst("asn1: " + ra.err.Error()))}
		}
		// content bytes: output bytes that differ between the runs map, in order, to the symbolic input positions
		k := 0
		content := func(x, y []byte) Value {
			if x == nil {
				return Slice{}
			}
			out := make([]*sym.Term, len(x))
			for i := range x {
				if x[i] != y[i] {
					out[i] = ts[symPos[k]]
					k++
				} else {
					out[i] = e.byteConst(x[i])
				}
			}
			return e.newByteSlice(out)
		}
		// symbolic bytes that precede the first content field belong to nothing we return; account for those inside `rest`
		restStart := len(ts) - ra.restLen
		switch kind {
		case "ObjectIdentifier":
			e.storeLeaf(dst, 0, e.engineOID(ra.oid))
		case "NegTokenInit":
			obj := e.newObject(len(ra.ini.MechTypes), "mechs")
			for i, m := range ra.ini.MechTypes {
				obj.Cells[i] = e.engineOID(m)
			}
			e.storeLeaf(dst, 0, Slice{Obj: obj, Len: len(ra.ini.MechTypes), Cap: len(ra.ini.MechTypes), Stride: 1})
			e.storeLeaf(dst, 1, e.newByteSlice(nil))
			e.storeLeaf(dst, 2, e.tb.Const(64, uint64(ra.ini.ReqFlags.BitLength)))
			e.storeLeaf(dst, 3, content(ra.ini.MechToken, rb.ini.MechToken))
			e.storeLeaf(dst, 4, content(ra.ini.MechTokenMIC, rb.ini.MechTokenMIC))
		case "NegTokenResp":
			e.storeLeaf(dst, 0, e.tb.ConstI(64, int64(ra.resp.NegState)))
			e.storeLeaf(dst, 1, e.engineOID(ra.resp.SupportedMech))
			e.storeLeaf(dst, 2, content(ra.resp.ResponseToken, rb.resp.ResponseToken))
			e.storeLeaf(dst, 3, content(ra.resp.MechListMIC, rb.resp.MechListMIC))
		}
		// every symbolic position before `rest` must have been consumed as content
		consumedBeforeRest := 0
		for _, p := range symPos {
			if p < restStart {
				consumedBeforeRest++
			}
		}
		if k != consumedBeforeRest {
			panic(unsupported(fmt.Sprintf("asn1.Unmarshal template: %d symbolic bytes inside the value but %d content bytes mapped", consumedBeforeRest, k)))
		}
		e.rep.Stubs["encoding/asn1.Unmarshal run natively on a template of "+kind+" (structure concrete, OCTET STRING contents substituted)"]++
		return Tuple{Slice{Obj: in.Obj, Off: in.Off + restStart, Len: ra.restLen, Cap: in.Cap - restStart, Stride: 1}, Iface{}}
	}
}
