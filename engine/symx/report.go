package symx

import (
	"fmt"
	"math/big"
	"sort"

	"verif/engine/sym"
)

// Violation is one counterexample candidate (before native replay).
type Violation struct {
	Key    string            `json:"key"`
	Kind   string            `json:"kind"` // check, panic, unwind, alloc
	Msg    string            `json:"msg"`
	Where  string            `json:"where"`
	Inputs map[string]string `json:"inputs"` // name -> hex (bytes) or decimal
	Params map[string]int    `json:"params,omitempty"`
	Bytes  int               `json:"bytes,omitempty"`
}

type Obligation struct {
	Key        string
	Proved     int // solver said unsat on a path
	Folded     int // closed by term folding (no solver call)
	Violated   int
	Unknown    int
	MaxSize    int
	Violations []Violation
}

type Inconclusive struct {
	Key string `json:"key"`
	Msg string `json:"msg"`
	N   int    `json:"n"`
}

// Report accumulates what one harness instance explored.
type Report struct {
	Obls            map[string]*Obligation
	Paths           int
	PathsDone       int
	PathKinds       map[string]int
	Steps           int64
	Branches        int
	UnknownBranches int
	Concretisations int
	CacheHits       int
	Incon           map[string]*Inconclusive
	Covers          map[string]bool
	CoverDecl       map[string]bool
	Funcs           map[string]int64
	Blocks          map[string]*BlockCov // basic-block coverage of the module's own functions (vacuity guard for the grids)
	Stubs           map[string]int
	UnwindHits      int
	IfConverted     int
	QuickSat        int
	Solver          sym.Stats
	Inputs          []InputRec
	Samples         []string
	Witness         map[string]string
}

func newReport() *Report {
	return &Report{Obls: map[string]*Obligation{}, PathKinds: map[string]int{}, Incon: map[string]*Inconclusive{},
		Covers: map[string]bool{}, CoverDecl: map[string]bool{}, Funcs: map[string]int64{}, Stubs: map[string]int{}, Blocks: map[string]*BlockCov{}}
}

func (r *Report) obl(key string) *Obligation {
	o := r.Obls[key]
	if o == nil {
		o = &Obligation{Key: key}
		r.Obls[key] = o
	}
	return o
}

func (r *Report) noteInconclusive(key, msg string) {
	i := r.Incon[key]
	if i == nil {
		i = &Inconclusive{Key: key, Msg: msg}
		r.Incon[key] = i
	}
	i.N++
}

func (r *Report) sortedObls() []*Obligation {
	var out []*Obligation
	for _, o := range r.Obls {
		out = append(out, o)
	}
	sort.Slice(out, func(i, j int) bool { return out[i].Key < out[j].Key })
	return out
}

// modelInputs renders the nondet inputs under a model.
func (e *Exec) modelInputs(m *sym.Model) map[string]string {
	out := map[string]string{}
	get := func(name string) *big.Int {
		if m != nil {
			if v, ok := m.Vars[name]; ok {
				return v
			}
		}
		return big.NewInt(0)
	}
	for _, in := range e.inputs {
		switch in.Kind {
		case "bytes", "string":
			buf := make([]byte, in.N)
			for i := 0; i < in.N; i++ {
				buf[i] = byte(get(fmt.Sprintf("%s[%d]", in.Name, i)).Uint64())
			}
			out[in.Name] = fmt.Sprintf("%x", buf)
		case "bool":
			if get(in.Name).Sign() != 0 {
				out[in.Name] = "1"
			} else {
				out[in.Name] = "0"
			}
		default:
			out[in.Name] = get(in.Name).String()
		}
	}
	return out
}

func (e *Exec) violation(key, kind, msg string, m *sym.Model) {
	o := e.rep.obl(key)
	o.Violated++
	if len(o.Violations) < 3 {
		o.Violations = append(o.Violations, Violation{Key: key, Kind: kind, Msg: msg, Where: e.where(), Inputs: e.modelInputs(m), Params: e.cfg.Params})
	}
}

// BlockCov records which basic blocks of one function were executed on some path.
type BlockCov struct {
	Total int
	Hit   map[int]bool
	Line  map[int]int // block index -> source line of its first positioned instruction
}
