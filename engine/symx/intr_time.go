package symx

import (
	"time"

	"golang.org/x/tools/go/ssa"
	"verif/engine/sym"
)

// time.Time is modelled abstractly inside its own three struct cells:
//   cell 0 = nanoseconds within the second, 0 <= nsec < 1e9   (64-bit term)
//   cell 1 = seconds since the Unix epoch                      (64-bit term, signed)
//   cell 2 = location pointer (ignored: every zone is treated as UTC; only instant arithmetic is modelled)
// Every time.Time method the library uses is an intrinsic; any other method on time.Time is rejected as unsupported.

func (e *Exec) mkTime(sec, nsec *sym.Term) Value {
	return Agg{nsec, sec, Ptr{}}
}

func timeParts(v Value) (sec, nsec *sym.Term) {
	a := v.(Agg)
	return a[1].(*sym.Term), a[0].(*sym.Term)
}

// timeUnix mirrors time.Unix(sec, nsec): normalises nsec into [0, 1e9).
func (e *Exec) timeUnix(sec, nsec *sym.Term) Value {
	tb := e.tb
	e9 := tb.Const(64, 1_000_000_000)
	if nsec.IsConst() && nsec.Int64() >= 0 && nsec.Int64() < 1_000_000_000 {
		return e.mkTime(sec, nsec)
	}
	// already normalised on this path? (one query; keeps the terms free of a 64-bit division)
	inRange := tb.ULt(nsec, e9)
	if e.pcSet[inRange.ID] {
		return e.mkTime(sec, nsec)
	}
	if r, _ := e.check(tb.Not(inRange)); r == sym.Unsat {
		return e.mkTime(sec, nsec)
	}
	// n := nsec / 1e9 (truncated); sec += n; nsec -= n*1e9; if nsec < 0 { nsec += 1e9; sec-- }
	n := tb.SDiv(nsec, e9)
	sec2 := tb.Add(sec, n)
	ns2 := tb.SRem(nsec, e9)
	neg := tb.SLt(ns2, tb.Const(64, 0))
	return e.mkTime(tb.Ite(neg, tb.Sub(sec2, tb.Const(64, 1)), sec2), tb.Ite(neg, tb.Add(ns2, e9), ns2))
}

func init() {
	reg := func(name string, f intrinsic) { intrinsics[name] = f }
	reg("time.Unix", func(e *Exec, fn *ssa.Function, a []Value) Value {
		return e.timeUnix(a[0].(*sym.Term), a[1].(*sym.Term))
	})
	reg("time.UnixMilli", func(e *Exec, fn *ssa.Function, a []Value) Value {
		ms := a[0].(*sym.Term)
		k := e.tb.Const(64, 1000)
		return e.timeUnix(e.tb.SDiv(ms, k), e.tb.Mul(e.tb.SRem(ms, k), e.tb.Const(64, 1_000_000)))
	})
	reg("time.Now", func(e *Exec, fn *ssa.Function, a []Value) Value {
		tb := e.tb
		if e.cfg.FixedClock {
			sec := int64(1_700_000_000)
			if e.lastNow != nil {
				ps, _ := timeParts(e.lastNow)
				sec = ps.Int64() + 1
			}
			t := e.mkTime(tb.ConstI(64, sec), tb.Const(64, 0))
			e.lastNow = t
			return t
		}
		sec := e.freshVar("now.sec", 64)
		nsec := e.freshVar("now.nsec", 64)
		// a plausible clock: between 1970 and year 2262 (UnixNano representable), nsec in range, non-decreasing
		e.assume(tb.BAnd(tb.SLe(tb.Const(64, 0), sec), tb.SLt(sec, tb.Const(64, 9_000_000_000)), tb.ULt(nsec, tb.Const(64, 1_000_000_000))))
		if e.lastNow != nil {
			ps, pn := timeParts(e.lastNow)
			e.assume(tb.BOr(tb.SLt(ps, sec), tb.BAnd(tb.Eq(ps, sec), tb.ULe(pn, nsec))))
		}
		t := e.mkTime(sec, nsec)
		e.lastNow = t
		return t
	})
	reg("(time.Time).Unix", func(e *Exec, fn *ssa.Function, a []Value) Value {
		s, _ := timeParts(a[0])
		return s
	})
	reg("(time.Time).UnixNano", func(e *Exec, fn *ssa.Function, a []Value) Value {
		s, n := timeParts(a[0])
		return e.tb.Add(e.tb.Mul(s, e.tb.Const(64, 1_000_000_000)), n) // wraps like the runtime
	})
	reg("(time.Time).UnixMilli", func(e *Exec, fn *ssa.Function, a []Value) Value {
		s, n := timeParts(a[0])
		return e.tb.Add(e.tb.Mul(s, e.tb.Const(64, 1000)), e.tb.SDiv(n, e.tb.Const(64, 1_000_000)))
	})
	reg("(time.Time).UnixMicro", func(e *Exec, fn *ssa.Function, a []Value) Value {
		s, n := timeParts(a[0])
		return e.tb.Add(e.tb.Mul(s, e.tb.Const(64, 1_000_000)), e.tb.SDiv(n, e.tb.Const(64, 1000)))
	})
	reg("(time.Time).Nanosecond", func(e *Exec, fn *ssa.Function, a []Value) Value {
		_, n := timeParts(a[0])
		return n
	})
	for _, m := range []string{"UTC", "Local", "Round", "Truncate"} {
		if m == "Round" || m == "Truncate" {
			continue
		}
		reg("(time.Time)."+m, func(e *Exec, fn *ssa.Function, a []Value) Value { return a[0] })
	}
	reg("(time.Time).In", func(e *Exec, fn *ssa.Function, a []Value) Value { return a[0] })
	reg("(time.Time).IsZero", func(e *Exec, fn *ssa.Function, a []Value) Value {
		s, n := timeParts(a[0])
		// zero Time is year 1: sec = -62135596800
		return e.tb.BAnd(e.tb.Eq(s, e.tb.ConstI(64, -62135596800)), e.tb.Eq(n, e.tb.Const(64, 0)))
	})
	cmp := func(kind string) intrinsic {
		return func(e *Exec, fn *ssa.Function, a []Value) Value {
			tb := e.tb
			s1, n1 := timeParts(a[0])
			s2, n2 := timeParts(a[1])
			eq := tb.BAnd(tb.Eq(s1, s2), tb.Eq(n1, n2))
			lt := tb.BOr(tb.SLt(s1, s2), tb.BAnd(tb.Eq(s1, s2), tb.ULt(n1, n2)))
			switch kind {
			case "Equal":
				return eq
			case "Before":
				return lt
			}
			return tb.Not(tb.BOr(eq, lt))
		}
	}
	reg("(time.Time).Equal", cmp("Equal"))
	reg("(time.Time).Before", cmp("Before"))
	reg("(time.Time).After", cmp("After"))
	reg("(time.Time).Add", func(e *Exec, fn *ssa.Function, a []Value) Value {
		s, n := timeParts(a[0])
		d := a[1].(*sym.Term)
		// nsec + d cannot overflow: |d| < 2^63, nsec < 2^30 -> compute seconds and remainder of d separately
		e9 := e.tb.Const(64, 1_000_000_000)
		ds := e.tb.SDiv(d, e9)
		dn := e.tb.SRem(d, e9)
		return e.timeUnix(e.tb.Add(s, ds), e.tb.Add(n, dn))
	})
	reg("(time.Time).Sub", func(e *Exec, fn *ssa.Function, a []Value) Value {
		tb := e.tb
		s1, n1 := timeParts(a[0])
		s2, n2 := timeParts(a[1])
		ds := tb.Sub(s1, s2)
		// saturating like the runtime when out of Duration range; in-range case exact
		inRange := tb.BAnd(tb.SLt(tb.ConstI(64, -9_000_000_000), ds), tb.SLt(ds, tb.Const(64, 9_000_000_000)))
		if !e.branch(inRange) {
			if e.branch(tb.SLt(ds, tb.Const(64, 0))) {
				return tb.ConstI(64, -1<<63)
			}
			return tb.ConstI(64, 1<<63-1)
		}
		return tb.Add(tb.Mul(ds, tb.Const(64, 1_000_000_000)), tb.Sub(n1, n2))
	})
	reg("time.Since", func(e *Exec, fn *ssa.Function, a []Value) Value {
		now := intrinsics["time.Now"](e, fn, nil)
		return intrinsics["(time.Time).Sub"](e, fn, []Value{now, a[0]})
	})
	reg("time.Date", func(e *Exec, fn *ssa.Function, a []Value) Value {
		var v [7]int
		for i := 0; i < 7; i++ {
			v[i] = int(e.mustConcreteInt(a[i], "time.Date argument"))
		}
		t := time.Date(v[0], time.Month(v[1]), v[2], v[3], v[4], v[5], v[6], time.UTC)
		return e.mkTime(e.tb.ConstI(64, t.Unix()), e.tb.Const(64, uint64(t.Nanosecond())))
	})
	for _, m := range []string{"Format", "String", "GoString"} {
		reg("(time.Time)."+m, func(e *Exec, fn *ssa.Function, a []Value) Value {
			if e.cfg.LossyFmt {
				return e.strConst("<time>")
			}
			s, n := timeParts(a[0])
			if s.IsConst() && n.IsConst() {
				return e.strConst(time.Unix(s.Int64(), n.Int64()).UTC().String())
			}
			panic(unsupported("formatting a symbolic time.Time"))
		})
	}
	reg("time.Sleep", func(e *Exec, fn *ssa.Function, a []Value) Value { e.runPendingTasks(); return nil }) // sleeping lets the other goroutines run
}

func isTimeMethod(name string) bool {
	return len(name) > 12 && (name[:11] == "(time.Time)" || (len(name) > 13 && name[:12] == "(*time.Time)"))
}
