package symx

import (
	"go/types"

	"golang.org/x/tools/go/ssa"
	"verif/engine/sym"
)

// bytes.Buffer is modelled inside its own struct cells: cell 0 = the byte slice (unread portion starts at cell 1 = off).

func (e *Exec) bufSlice(p Ptr) Slice {
	e.nilDeref(p)
	return p.Obj.Cells[p.Off].(Slice)
}

func (e *Exec) bufAppend(p Ptr, more []*sym.Term) {
	s := e.bufSlice(p)
	var all []*sym.Term
	if s.Len > 0 {
		all = append(all, e.bytesOf(s)...)
	}
	all = append(all, more...)
	e.setCell(p.Obj, p.Off, e.newByteSlice(all))
}

func init() {
	reg := func(name string, f intrinsic) { intrinsics[name] = f }
	reg("bytes.NewBuffer", func(e *Exec, fn *ssa.Function, a []Value) Value {
		pkg := e.prog.ImportedPackage("bytes")
		o := e.allocType(pkg.Type("Buffer").Type(), "bytes.Buffer")
		o.Cells[0] = a[0]
		return Ptr{Obj: o}
	})
	reg("bytes.NewBufferString", func(e *Exec, fn *ssa.Function, a []Value) Value {
		pkg := e.prog.ImportedPackage("bytes")
		o := e.allocType(pkg.Type("Buffer").Type(), "bytes.Buffer")
		o.Cells[0] = e.newByteSlice(a[0].(Str).B)
		return Ptr{Obj: o}
	})
	reg("(*bytes.Buffer).Write", func(e *Exec, fn *ssa.Function, a []Value) Value {
		s := a[1].(Slice)
		var b []*sym.Term
		if s.Len > 0 {
			b = e.bytesOf(s)
		}
		e.bufAppend(a[0].(Ptr), b)
		return Tuple{e.tb.Const(64, uint64(s.Len)), Iface{}}
	})
	reg("(*bytes.Buffer).WriteString", func(e *Exec, fn *ssa.Function, a []Value) Value {
		s := a[1].(Str)
		e.bufAppend(a[0].(Ptr), s.B)
		return Tuple{e.tb.Const(64, uint64(len(s.B))), Iface{}}
	})
	reg("(*bytes.Buffer).WriteByte", func(e *Exec, fn *ssa.Function, a []Value) Value {
		e.bufAppend(a[0].(Ptr), []*sym.Term{a[1].(*sym.Term)})
		return Iface{}
	})
	reg("(*bytes.Buffer).Bytes", func(e *Exec, fn *ssa.Function, a []Value) Value {
		return e.bufSlice(a[0].(Ptr))
	})
	reg("(*bytes.Buffer).Len", func(e *Exec, fn *ssa.Function, a []Value) Value {
		return e.tb.Const(64, uint64(e.bufSlice(a[0].(Ptr)).Len))
	})
	reg("(*bytes.Buffer).String", func(e *Exec, fn *ssa.Function, a []Value) Value {
		s := e.bufSlice(a[0].(Ptr))
		if s.Len == 0 {
			return Str{}
		}
		return Str{e.bytesOf(s)}
	})
	reg("(*bytes.Buffer).Reset", func(e *Exec, fn *ssa.Function, a []Value) Value {
		p := a[0].(Ptr)
		e.setCell(p.Obj, p.Off, Slice{})
		return nil
	})
	// binary.Write for fixed-size integers (the only use in the library), any io.Writer
	reg("encoding/binary.Write", func(e *Exec, fn *ssa.Function, a []Value) Value {
		w := a[0].(Iface)
		order := a[1].(Iface)
		data := a[2].(Iface)
		t, ok := data.V.(*sym.Term)
		if !ok || t.W == 0 || t.W%8 != 0 {
			panic(unsupported("binary.Write of a non-integer value"))
		}
		little := typeShortName(order.T) == "littleEndian"
		n := t.W / 8
		bs := make([]*sym.Term, n)
		for i := 0; i < n; i++ {
			b := e.tb.Extract(t, 8*i+7, 8*i)
			if little {
				bs[i] = b
			} else {
				bs[n-1-i] = b
			}
		}
		r := e.invokeByName(w, "Write", []Value{e.newByteSlice(bs)})
		if tup, ok := r.(Tuple); ok {
			return tup[1]
		}
		return Iface{}
	})
	_ = types.Typ
}
