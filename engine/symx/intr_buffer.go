package symx

import (
	"go/types"

	"golang.org/x/tools/go/ssa"
	"verif/engine/sym"
)

// bytes.Buffer is modelled inside its own struct cells: cell 0 = the byte slice (unread portion starts at cell 1 = off).

func (e *Exec) bufSlice(p Ptr) Slice {
	e.nilDeref(p)
	return p.Obj.Cells[p.Off].(Slice)
}

// bufAppend mirrors (*bytes.Buffer).grow + copy: bytes are written in place while the backing array has room, so slices
// handed out earlier by Bytes() alias the buffer exactly as in the runtime; a full buffer moves to a new array
// (first allocation 64 bytes, then max(2*cap, len+n) rounded up to a malloc size class).
func (e *Exec) bufAppend(p Ptr, more []*sym.Term) {
	s := e.bufSlice(p)
	n := len(more)
	if n == 0 {
		return
	}
	if s.Obj != nil && s.Cap-s.Len >= n {
		for i, t := range more {
			e.setCell(s.Obj, s.Off+s.Len+i, t)
		}
		s.Len += n
		e.setCell(p.Obj, p.Off, s)
		return
	}
	newCap := 64
	if s.Obj != nil || n > 64 {
		newCap = 2 * s.Cap
		if s.Len+n > newCap {
			newCap = s.Len + n
		}
		newCap = roundupsize(newCap)
	}
	o := e.newObject(newCap, "bytes.Buffer.buf")
	for i := 0; i < newCap; i++ {
		o.Cells[i] = e.byteConst(0)
	}
	for i := 0; i < s.Len; i++ {
		o.Cells[i] = s.Obj.Cells[s.Off+i]
	}
	for i, t := range more {
		o.Cells[s.Len+i] = t
	}
	e.setCell(p.Obj, p.Off, Slice{Obj: o, Off: 0, Len: s.Len + n, Cap: newCap, Stride: 1})
}

func init() {
	reg := func(name string, f intrinsic) { intrinsics[name] = f }
	reg("bytes.NewBuffer", func(e *Exec, fn *ssa.Function, a []Value) Value {
		pkg := e.prog.ImportedPackage("bytes")
		o := e.allocType(pkg.Type("Buffer").Type(), "bytes.Buffer")
		o.Cells[0] = a[0]
		return Ptr{Obj: o}
	})
	reg("bytes.NewBufferString", func(e *Exec, fn *ssa.Function, a []Value) Value {
		pkg := e.prog.ImportedPackage("bytes")
		o := e.allocType(pkg.Type("Buffer").Type(), "bytes.Buffer")
		o.Cells[0] = e.newByteSlice(a[0].(Str).B)
		return Ptr{Obj: o}
	})
	reg("(*bytes.Buffer).Write", func(e *Exec, fn *ssa.Function, a []Value) Value {
		s := a[1].(Slice)
		var b []*sym.Term
		if s.Len > 0 {
			b = e.bytesOf(s)
		}
		e.bufAppend(a[0].(Ptr), b)
		return Tuple{e.tb.Const(64, uint64(s.Len)), Iface{}}
	})
	reg("(*bytes.Buffer).WriteString", func(e *Exec, fn *ssa.Function, a []Value) Value {
		s := a[1].(Str)
		e.bufAppend(a[0].(Ptr), s.B)
		return Tuple{e.tb.Const(64, uint64(len(s.B))), Iface{}}
	})
	reg("(*bytes.Buffer).WriteByte", func(e *Exec, fn *ssa.Function, a []Value) Value {
		e.bufAppend(a[0].(Ptr), []*sym.Term{a[1].(*sym.Term)})
		return Iface{}
	})
	reg("(*bytes.Buffer).Bytes", func(e *Exec, fn *ssa.Function, a []Value) Value {
		return e.bufSlice(a[0].(Ptr))
	})
	reg("(*bytes.Buffer).Len", func(e *Exec, fn *ssa.Function, a []Value) Value {
		return e.tb.Const(64, uint64(e.bufSlice(a[0].(Ptr)).Len))
	})
	reg("(*bytes.Buffer).String", func(e *Exec, fn *ssa.Function, a []Value) Value {
		s := e.bufSlice(a[0].(Ptr))
		if s.Len == 0 {
			return Str{}
		}
		return Str{e.bytesOf(s)}
	})
	reg("(*bytes.Buffer).Reset", func(e *Exec, fn *ssa.Function, a []Value) Value {
		p := a[0].(Ptr)
		s := e.bufSlice(p)
		s.Len = 0 // Reset keeps the backing array (later writes overwrite what earlier Bytes() results still see)
		e.setCell(p.Obj, p.Off, s)
		return nil
	})
	// strings.Builder{addr *Builder; buf []byte}: the same append-in-place model on cell 1 (copy checks are not modelled)
	sb := func(v Value) Ptr { p := v.(Ptr); return Ptr{Obj: p.Obj, Off: p.Off + 1} }
	reg("(*strings.Builder).WriteString", func(e *Exec, fn *ssa.Function, a []Value) Value {
		s := a[1].(Str)
		e.bufAppend(sb(a[0]), s.B)
		return Tuple{e.tb.Const(64, uint64(len(s.B))), Iface{}}
	})
	reg("(*strings.Builder).Write", func(e *Exec, fn *ssa.Function, a []Value) Value {
		s := a[1].(Slice)
		var b []*sym.Term
		if s.Len > 0 {
			b = e.bytesOf(s)
		}
		e.bufAppend(sb(a[0]), b)
		return Tuple{e.tb.Const(64, uint64(s.Len)), Iface{}}
	})
	reg("(*strings.Builder).WriteByte", func(e *Exec, fn *ssa.Function, a []Value) Value {
		e.bufAppend(sb(a[0]), []*sym.Term{a[1].(*sym.Term)})
		return Iface{}
	})
	reg("(*strings.Builder).String", func(e *Exec, fn *ssa.Function, a []Value) Value {
		s := e.bufSlice(sb(a[0]))
		if s.Len == 0 {
			return Str{}
		}
		return Str{e.bytesOf(s)}
	})
	reg("(*strings.Builder).Len", func(e *Exec, fn *ssa.Function, a []Value) Value {
		return e.tb.Const(64, uint64(e.bufSlice(sb(a[0])).Len))
	})
	reg("(*strings.Builder).Grow", func(e *Exec, fn *ssa.Function, a []Value) Value { return nil })
	reg("(*strings.Builder).Reset", func(e *Exec, fn *ssa.Function, a []Value) Value {
		p := sb(a[0])
		e.setCell(p.Obj, p.Off, Slice{})
		return nil
	})
	// binary.Write for fixed-size integers (the only use in the library), any io.Writer
	reg("encoding/binary.Write", func(e *Exec, fn *ssa.Function, a []Value) Value {
		w := a[0].(Iface)
		order := a[1].(Iface)
		data := a[2].(Iface)
		t, ok := data.V.(*sym.Term)
		if !ok || t.W == 0 || t.W%8 != 0 {
			panic(unsupported("binary.Write of a non-integer value"))
		}
		little := typeShortName(order.T) == "littleEndian"
		n := t.W / 8
		bs := make([]*sym.Term, n)
		for i := 0; i < n; i++ {
			b := e.tb.Extract(t, 8*i+7, 8*i)
			if little {
				bs[i] = b
			} else {
				bs[n-1-i] = b
			}
		}
		r := e.invokeByName(w, "Write", []Value{e.newByteSlice(bs)})
		if tup, ok := r.(Tuple); ok {
			return tup[1]
		}
		return Iface{}
	})
	_ = types.Typ
}
