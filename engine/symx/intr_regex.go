package symx

import (
	"math/big"
	"regexp"
	"regexp/syntax"

	"golang.org/x/tools/go/ssa"
	"verif/engine/sym"
)

// regexMatch encodes "pattern matches somewhere in s" (regexp.MatchString semantics) as one boolean term:
// Thompson NFA simulation over the concrete-length symbolic string. Bytes >= 0x80 never match a rune
// instruction (exact for patterns whose classes are ASCII-only; other patterns are rejected as unsupported).
func (e *Exec) regexMatch(pattern string, s Str) *sym.Term {
	re, err := syntax.Parse(pattern, syntax.Perl)
	if err != nil {
		panic(unsupported("regexp parse error: " + err.Error()))
	}
	prog, err := syntax.Compile(re.Simplify())
	if err != nil {
		panic(unsupported("regexp compile error: " + err.Error()))
	}
	tb := e.tb
	n := len(s.B)
	np := len(prog.Inst)
	runeCond := func(in *syntax.Inst, c *sym.Term) *sym.Term {
		var rs []rune
		fold := false
		switch in.Op {
		case syntax.InstRune1:
			rs = []rune{in.Rune[0], in.Rune[0]}
			fold = syntax.Flags(in.Arg)&syntax.FoldCase != 0
		case syntax.InstRune:
			rs = in.Rune
			if len(rs) == 1 {
				rs = []rune{rs[0], rs[0]}
				fold = syntax.Flags(in.Arg)&syntax.FoldCase != 0
			}
		case syntax.InstRuneAny, syntax.InstRuneAnyNotNL:
			panic(unsupported("regexp: '.' on symbolic input"))
		}
		var alts []*sym.Term
		addRange := func(lo, hi rune) {
			if lo > 0x7F {
				return
			}
			if hi > 0x7F {
				hi = 0x7F
			}
			if lo == hi {
				alts = append(alts, tb.Eq(c, tb.Const(8, uint64(lo))))
			} else {
				alts = append(alts, tb.BAnd(tb.ULe(tb.Const(8, uint64(lo)), c), tb.ULe(c, tb.Const(8, uint64(hi)))))
			}
		}
		for i := 0; i+1 < len(rs); i += 2 {
			lo, hi := rs[i], rs[i+1]
			if hi > 0x7F && lo <= 0x7F && hi >= 0x10FFFF-1 {
				panic(unsupported("regexp: negated / open-ended class on symbolic input"))
			}
			addRange(lo, hi)
			if fold && lo == hi {
				r := lo
				if r >= 'a' && r <= 'z' {
					addRange(r-32, r-32)
				} else if r >= 'A' && r <= 'Z' {
					addRange(r+32, r+32)
				}
			}
		}
		return tb.BOr(alts...)
	}
	emptyOK := func(op syntax.EmptyOp, pos int) bool {
		if op&(syntax.EmptyBeginText|syntax.EmptyBeginLine) != 0 && pos != 0 {
			if op&syntax.EmptyBeginLine != 0 && op&syntax.EmptyBeginText == 0 {
				panic(unsupported("regexp: multiline anchors"))
			}
			return false
		}
		if op&(syntax.EmptyEndText|syntax.EmptyEndLine) != 0 && pos != n {
			if op&syntax.EmptyEndLine != 0 && op&syntax.EmptyEndText == 0 {
				panic(unsupported("regexp: multiline anchors"))
			}
			return false
		}
		if op&(syntax.EmptyWordBoundary|syntax.EmptyNoWordBoundary) != 0 {
			panic(unsupported("regexp: word boundary"))
		}
		return true
	}
	seeds := map[int]*sym.Term{} // threads entering position i
	matched := tb.False
	for pos := 0; pos <= n; pos++ {
		// unanchored search: a new thread may start at every position
		if t, ok := seeds[prog.Start]; ok {
			seeds[prog.Start] = tb.BOr(t, tb.True)
		} else {
			seeds[prog.Start] = tb.True
		}
		acc := make([]*sym.Term, np)
		for pc, t := range seeds {
			if t.IsFalse() {
				continue
			}
			visited := make([]bool, np)
			stack := []int{pc}
			for len(stack) > 0 {
				p := stack[len(stack)-1]
				stack = stack[:len(stack)-1]
				if visited[p] {
					continue
				}
				visited[p] = true
				if acc[p] == nil {
					acc[p] = t
				} else {
					acc[p] = tb.BOr(acc[p], t)
				}
				in := &prog.Inst[p]
				switch in.Op {
				case syntax.InstAlt, syntax.InstAltMatch:
					stack = append(stack, int(in.Out), int(in.Arg))
				case syntax.InstNop, syntax.InstCapture:
					stack = append(stack, int(in.Out))
				case syntax.InstEmptyWidth:
					if emptyOK(syntax.EmptyOp(in.Arg), pos) {
						stack = append(stack, int(in.Out))
					}
				}
			}
		}
		next := map[int]*sym.Term{}
		for p := 0; p < np; p++ {
			if acc[p] == nil {
				continue
			}
			in := &prog.Inst[p]
			switch in.Op {
			case syntax.InstMatch:
				matched = tb.BOr(matched, acc[p])
			case syntax.InstRune, syntax.InstRune1, syntax.InstRuneAny, syntax.InstRuneAnyNotNL:
				if pos < n {
					c := tb.BAnd(acc[p], runeCond(in, s.B[pos]))
					if !c.IsFalse() {
						if o, ok := next[int(in.Out)]; ok {
							next[int(in.Out)] = tb.BOr(o, c)
						} else {
							next[int(in.Out)] = c
						}
					}
				}
			}
		}
		seeds = next
	}
	return matched
}

// sampleString pins the symbolic bytes of s to one concrete assignment and returns it. Three samples are followed (a
// forked decision, like a choice): the solver's own model, one preferring bytes with bit 5 clear (upper-case letters) and
// one preferring bit 5 set (lower-case letters, digits). This is a stated sampling, used only where an operation on
// symbolic text has no symbolic model (sub-match extraction): whatever is found afterwards is found for a real input.
func (e *Exec) sampleString(s Str, what string) string {
	tb := e.tb
	anySym := false
	for _, b := range s.B {
		if !b.IsConst() {
			anySym = true
		}
	}
	if anySym {
		sel := e.freshVar("sample", 8)
		e.assume(tb.ULt(sel, tb.Const(8, 3)))
		k := e.concretize(sel, "sample")
		if k > 0 {
			for _, b := range s.B {
				if b.IsConst() {
					continue
				}
				c := tb.Eq(tb.And(b, tb.Const(8, 0x20)), tb.Const(8, 0))
				if k == 2 {
					c = tb.Not(c)
				}
				if r, _ := e.check(c); r == sym.Sat {
					e.addPC(c)
				}
			}
		}
		r, m := e.check()
		if r != sym.Sat || m == nil {
			e.end("infeasible", "no sample of the text at "+what)
		}
		memo := map[int]*big.Int{}
		for _, b := range s.B {
			if b.IsConst() {
				continue
			}
			v, ok := tb.Eval(b, m, memo)
			if !ok {
				panic(unsupported(what + ": text depends on an uninterpreted value"))
			}
			e.addPC(tb.Eq(b, tb.ConstBig(8, v)))
		}
		e.model = m
		e.rep.Stubs["SAMPLED text at "+what+" (3 concrete samples of the symbolic text are followed; sub-match extraction has no symbolic model)"]++
		out := make([]byte, len(s.B))
		for i, b := range s.B {
			if b.IsConst() {
				out[i] = byte(b.Uint64())
			} else {
				v, _ := tb.Eval(b, m, memo)
				out[i] = byte(v.Uint64())
			}
		}
		return string(out)
	}
	cs, _ := concreteString(s)
	return cs
}

func init() {
	rePattern := func(a []Value) string {
		pat, _ := concreteString(a[0].(Ptr).Obj.Cells[0].(Str))
		return pat
	}
	intrinsics["(*regexp.Regexp).FindStringSubmatch"] = func(e *Exec, fn *ssa.Function, a []Value) Value {
		pat := rePattern(a)
		s := a[1].(Str)
		// whether it matches at all is decided symbolically; the groups are extracted from a sampled text
		if _, ok := concreteString(s); !ok {
			if !e.branch(e.regexMatch(pat, s)) {
				return Slice{}
			}
		}
		cs := e.sampleString(s, "regexp.FindStringSubmatch")
		groups := regexp.MustCompile(pat).FindStringSubmatch(cs)
		if groups == nil {
			return Slice{}
		}
		parts := make([]Str, len(groups))
		for i, g := range groups {
			parts[i] = e.strConst(g)
		}
		return e.strSliceValue(parts)
	}
	intrinsics["(*regexp.Regexp).SubexpIndex"] = func(e *Exec, fn *ssa.Function, a []Value) Value {
		name, ok := concreteString(a[1].(Str))
		if !ok {
			panic(unsupported("regexp.SubexpIndex with symbolic name"))
		}
		return e.tb.ConstI(64, int64(regexp.MustCompile(rePattern(a)).SubexpIndex(name)))
	}
	intrinsics["(*regexp.Regexp).NumSubexp"] = func(e *Exec, fn *ssa.Function, a []Value) Value {
		return e.tb.ConstI(64, int64(regexp.MustCompile(rePattern(a)).NumSubexp()))
	}
	intrinsics["regexp.MatchString"] = func(e *Exec, fn *ssa.Function, a []Value) Value {
		pat, ok := concreteString(a[0].(Str))
		if !ok {
			panic(unsupported("regexp with symbolic pattern"))
		}
		s := a[1].(Str)
		if cs, ok := concreteString(s); ok {
			_ = cs
		}
		return Tuple{e.regexMatch(pat, s), Iface{}}
	}
	intrinsics["regexp.MustCompile"] = func(e *Exec, fn *ssa.Function, a []Value) Value {
		pat, ok := concreteString(a[0].(Str))
		if !ok {
			panic(unsupported("regexp with symbolic pattern"))
		}
		if _, err := syntax.Parse(pat, syntax.Perl); err != nil {
			panic(&targetPanic{val: e.strConst("regexp: Compile: " + err.Error()), site: e.where()})
		}
		o := e.newObject(1, "regexp")
		o.Cells[0] = a[0]
		return Ptr{Obj: o}
	}
	intrinsics["(*regexp.Regexp).MatchString"] = func(e *Exec, fn *ssa.Function, a []Value) Value {
		p := a[0].(Ptr)
		pat, _ := concreteString(p.Obj.Cells[0].(Str))
		return e.regexMatch(pat, a[1].(Str))
	}
}
