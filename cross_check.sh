#!/bin/sh
# Re-decides the quick tier of the given properties (default: all) with the two other solvers and prints the verdict lines.
# Evidence and replays of these runs go to a scratch directory; the registered evidence is not touched.
cd /verif
props="$*"
[ -z "$props" ] && props=$(python3 -c "import json;print(' '.join(c['property_id'] for c in json.load(open('MANIFEST.json'))['checks']))")
out=$(mktemp -d /tmp/verif_cross.XXXXXX)
for s in z3old cvc5; do
  for p in $props; do
    VERIF_OUT=$out ./check $p --tier quick -solver $s > $out/$p.$s.out 2>&1; rc=$?
    echo "$s $p rc=$rc $(tail -1 $out/$p.$s.out | cut -c1-190)"
  done
done
rm -rf "$out"
