#!/usr/bin/env python3
# regenerates MANIFEST.json from props/*.json + manifest_notes.json
import json, os, glob
notes = json.load(open('/verif/manifest_notes.json'))
props = [json.loads(l)['id'] for l in open('/verif/properties.jsonl')]
checks=[]; na=[]
for pid in props:
    n = notes.get(pid, {})
    if os.path.exists(f'/verif/props/{pid}.json') and n.get('claimed'):
        checks.append({
          "property_id": pid,
          "quick_cmd": f"./check {pid} --tier quick",
          "thorough_cmd": f"./check {pid} --tier thorough",
          "evidence_file": f"/verif/evidence/{pid}.json",
          "replay_cmd_template": f"./check {pid} --replay {{path}}",
          "engine": "symx",
          "level_claimed": {"category":"model_checking","text": n["text"], "design_ref": n.get("design_ref","DESIGN.md §2 "+pid)},
          "level_note": n["note"],
          "technique": n.get("technique","bounded symbolic execution of the real Go code (go/ssa -> SMT bit-vectors, z3), counterexamples replayed natively")
        })
    else:
        na.append({"property_id": pid, "reason": n.get("na_reason","check not built yet in this session; no claim is made")})
m = {
 "version": 1,
 "setup_cmd": "cd /verif/engine && unset GOSUMDB GOTOOLCHAIN; GOFLAGS=-mod=mod GOPROXY=off go build -o /verif/bin/vcheck ./cmd/vcheck",
 "hooks": {"guard":"verif","enable":"no hooks: harnesses are injected with go/packages overlays and `go test -overlay`; /repo is never modified by a check",
           "baseline_off_cmd":"cd /repo && GOFLAGS=-mod=mod go test -json -vet=off -count=1 -timeout 25m ./...","source_commits":[],"add_only":True},
 "engines":[{"name":"symx","path":"/verif/engine","serves_properties":[c["property_id"] for c in checks],
             "kind_free_text":"own go/ssa symbolic executor (path exploration by re-execution, hash-consed bit-vector terms, z3 over pipes, uninterpreted-function abstraction justified by lemma harnesses, native replay through go test -overlay)"}],
 "checks": checks,
 "not_applicable": na,
 "notes": "See DESIGN.md. Every check regenerates its encoding from /repo's current source; bounds actually run are in each evidence file."
}
json.dump(m, open('/verif/MANIFEST.json','w'), indent=1)
print(len(checks),'claimed',len(na),'n/a')
