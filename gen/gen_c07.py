#!/usr/bin/env python3
"""Generates the C07 (decoder totality) harness files and props/C07.json from one table.
Each entry: (repo-relative package dir, go package name, harness suffix, body, quick n-range, thorough n-range, extra group keys)"""
import json, os, collections

E = []
def add(pkg, pkgname, name, body, q, t, imports=(), **extra):
    E.append(dict(pkg=pkg, pkgname=pkgname, name=name, body=body, q=q, t=t, imports=imports, extra=extra))

T = "network/smb/smb_v10/types"
for ty, ctor in [("SMB_STRING","var v SMB_STRING"),("OEM_STRING","v := NewOEM_STRING()"),("SMB_DATE","v := NewSMB_DATE()"),
                 ("SMB_DIRECTORY_INFORMATION","v := NewSMB_DIRECTORY_INFORMATION()"),("SMB_FILE_ATTRIBUTES","var v SMB_FILE_ATTRIBUTES"),
                 ("SMB_NMPIPE_STATUS","var v SMB_NMPIPE_STATUS"),("SMB_RESUME_KEY","v := NewSMB_RESUME_KEY()"),
                 ("LOCKING_ANDX_RANGE32","var v LOCKING_ANDX_RANGE32"),("LOCKING_ANDX_RANGE64","var v LOCKING_ANDX_RANGE64"),("FILETIME","var v FILETIME")]:
    add(T,"types",ty,f"{ctor}\n\tv.Unmarshal(data)",["0..12"]+(["20..26","43","44","53"] if ty=="SMB_DIRECTORY_INFORMATION" else []),["0..40"]+(["43..54"] if ty=="SMB_DIRECTORY_INFORMATION" else []))

M="network/smb/smb_v10/message"
add(M+"/data","data","Data","d := NewData()\n\td.Unmarshal(data)",["0..10"],["0..40"])
add(M+"/parameters","parameters","Parameters","p := NewParameters()\n\tp.Unmarshal(data)",["0..10"],["0..40"])
add(M+"/header","header","Header","h := NewHeader()\n\th.Unmarshal(data)",["0..8","31..34"],["0..40"])
add(M+"/securityfeatures","securityfeatures","SecurityFeatures","a := NewSecurityFeaturesConnectionlessTransport()\n\ta.Unmarshal(data)\n\tb := NewSecurityFeaturesReserved()\n\tb.Unmarshal(data)\n\tc := NewSecurityFeaturesSecuritySignature()\n\tc.Unmarshal(data)",["0..10"],["0..20"])
add("network/smb/smb_v10/dialects","dialects","Dialects","d := NewDialects()\n\td.Unmarshal(data)",["0..8"],["0..14"])
add("network/smb/smb_v10/spnego/ntlm/version","version","Version","var v Version\n\tv.Unmarshal(data)",["0..10"],["0..20"])

add("crypto/pkcs7","pkcs7","Unpad","Unpad(data)",["0..10"],["0..40"])
add("utils/encoding/utf16","utf16","DecodeUTF16LE","DecodeUTF16LE(data)",["0..7"],["0..12"])
add("network/ldap","ldap","ParseSID","ParseSIDFromBytes(data)",["0..13","28","72"],["0..76"],lossy_fmt=True)


IL="network/smb/smb_v10/informationlevels"
for ty in "SMB_FIND_FILE_BOTH_DIRECTORY_INFO SMB_FIND_FILE_DIRECTORY_INFO SMB_FIND_FILE_FULL_DIRECTORY_INFO SMB_FIND_FILE_NAMES_INFO SMB_INFO_ALLOCATION SMB_INFO_IS_NAME_VALID SMB_INFO_QUERY_ALL_EAS SMB_INFO_QUERY_EAS_FROM_LIST SMB_INFO_QUERY_EA_SIZE SMB_INFO_SET_EAS SMB_INFO_STANDARD SMB_INFO_VOLUME SMB_QUERY_FILE_ALL_INFO SMB_QUERY_FILE_ALT_NAME_INFO SMB_QUERY_FILE_BASIC_INFO SMB_QUERY_FILE_COMRESSION_INFO SMB_QUERY_FILE_EA_INFO SMB_QUERY_FILE_NAME_INFO SMB_QUERY_FILE_STANDARD_INFO SMB_QUERY_FILE_STREAM_INFO SMB_QUERY_FS_ATTRIBUTE_INFO SMB_QUERY_FS_DEVICE_INFO SMB_QUERY_FS_SIZE_INFO SMB_QUERY_FS_VOLUME_INFO SMB_SET_FILE_ALLOCATION_INFO SMB_SET_FILE_BASIC_INFO SMB_SET_FILE_DISPOSITION_INFO SMB_SET_FILE_END_OF_FILE_INFO".split():
    add(IL,"informationlevels",ty,f"var v {ty}\n\tv.Unmarshal(data)",["0..10","24","40"],["0..100"],lossy_fmt=True)
add(M,"message","Message","if len(data) > 4 {\n\t\tvAssume(int(data[4]) == vParam(\"cmd\"))\n\t}\n\tm := NewMessage()\n\tm.Unmarshal(data)",["0","31..38"],["0","31..44"],lossy_fmt=True,grid_extra={"cmd":["0","4","37","47","114","115","117","255"]})

SP="network/smb/smb_v10/spnego"
add(SP,"spnego","ExtractNTLMToken","ExtractNTLMToken(data)",["0..8"],["0..16"],lossy_fmt=True)
add(SP,"spnego","ParseNegTokenResp","ParseNegTokenResp(data)",["0..8"],["0..16"],lossy_fmt=True)

# text-input entries use vString
def addS(pkg, pkgname, name, body, q, t, **extra):
    E.append(dict(pkg=pkg, pkgname=pkgname, name=name, body=body, q=q, t=t, imports=(), extra=extra, text=True))

L="network/llmnr"
add(L,"llmnr","DecodeMessage","DecodeMessage(data)",["0..13"],["0..14"],lossy_fmt=True)
add(L,"llmnr","DecodeMessage_counts","vAssume(data[4] == 0 && data[6] == 0 && int(data[5]) == vParam(\"qd\") && int(data[7]) == vParam(\"an\"))\n\tDecodeMessage(data)",["14","15"],["14..18"],lossy_fmt=True,grid_extra={"qd":["0..2"],"an":["0..2"]})
add(L,"llmnr","DecodeDomainName","DecodeDomainName(data, vParam(\"off\"))",["0..8"],["0..14"],lossy_fmt=True,grid_extra={"off":["0","1","3"]})
add(L,"llmnr","DecodeQuestion","DecodeQuestion(data, 0)",["0..9"],["0..14"],lossy_fmt=True)
add(L,"llmnr","DecodeResourceRecord","DecodeResourceRecord(data, 0)",["0..14"],["0..20"],lossy_fmt=True)
N="network/netbios/nbtns"
add(N,"nbtns","NBTNSPacket","p := &NBTNSPacket{}\n\tp.Unmarshal(data)",["0..16"],["0..20"],lossy_fmt=True)
addS(N,"nbtns","FirstLevelDecode","FirstLevelDecode(data)",["0..6","32","33","35"],["0..40"],lossy_fmt=True)
NT="network/smb/smb_v10/spnego/ntlm"
add(NT,"ntlm","ParseChallengeMessage","ParseChallengeMessage(data)",["0..12","55","56","58","64"],["0..72"],lossy_fmt=True,conc_sample=3,
    bounds="arbitrary byte strings of each length n in the grid (the parser's minimum is 56); after each symbolic slice bound at most 3 values are followed (the bound obligations themselves are decided for all values)")
add(NT,"ntlm","ParseTargetInfo","ParseTargetInfo(data)",["0..10"],["0..20"],lossy_fmt=True)
K="windows/keycredential"
add(K,"keycredentiallink","KeyCredential_FromBytes","kc := &KeyCredential{}\n\tkc.FromBytes(data)",["0..12"],["0..28"],lossy_fmt=True)
add(K,"keycredentiallink","DNWithBinary_Parse","d := &DNWithBinary{}\n\td.Parse(data)",["0..10"],["0..16"],lossy_fmt=True)
add(K+"/crypto","crypto","RSAKeyMaterial_FromBytes","rk := &RSAKeyMaterial{}\n\trk.FromBytes(data)",["0..12","24","28"],["0..40"],lossy_fmt=True)
add(K+"/key","key","CustomKeyInformation_FromBytes","cki := &CustomKeyInformation{}\n\tvar ver KeyCredentialVersion\n\tver.FromBytes(vBytes(\"ver\", 4))\n\tcki.FromBytes(data, ver)",["0..21"],["0..24"],lossy_fmt=True)
add(K+"/key","key","KeyCredentialVersion_FromBytes","var ver KeyCredentialVersion\n\tver.FromBytes(data)",["0..6"],["0..8"],lossy_fmt=True)
add("crypto/gppp","gppp","GPPPDecryptBytes","GPPPDecryptBytes(data)",["0..3","15","17"],["0..17"],lossy_fmt=True)
addS("crypto/gppp","gppp","GPPPDecryptBase64","GPPPDecryptBase64(data)",["0..6"],["0..10"],lossy_fmt=True)
add("crypto/uuid","uuid","UUID_Unmarshal","var u UUID\n\tu.Unmarshal(data)",["0..3","15..17"],["0..20"],lossy_fmt=True)
addS("crypto/uuid","uuid","UUID_FromString","var u UUID\n\tu.FromString(data)",["0..5"],["0..9"],lossy_fmt=True)
G="windows/guid"
add(G,"guid","FromRawBytes","g := NewGUID()\n\tg.FromRawBytes(data)",["0..4","15..17"],["0..20"],lossy_fmt=True)
addS(G,"guid","FromString","FromString(data)",["0..3","32","36","38"],["0..40"],lossy_fmt=True)
for f in "NDBPX":
    addS(G,"guid","FromFormat"+f,"FromFormat"+f+"(data)",["0..5"],["0..9"],lossy_fmt=True)
addS("windows/credentials","credentials","ParseLMNTHashes","ParseLMNTHashes(data)",["0..4","32","33","34"],["0..8","32..36","65","66"],lossy_fmt=True)
I="network/ip"
addS(I,"ip","NewIPv4FromString","NewIPv4FromString(data)",["0..8"],["0..12"],lossy_fmt=True)
addS(I,"ip","NewIPv6FromString","NewIPv6FromString(data)",["0..8"],["0..12"],lossy_fmt=True)
addS(I,"ip","NewTCPPortRangeFromString","NewTCPPortRangeFromString(data)",["0..8"],["0..12"],lossy_fmt=True)

def emit():
    bypkg = collections.OrderedDict()
    for e in E:
        bypkg.setdefault((e['pkg'],e['pkgname']),[]).append(e)
    groups=[]; dirs=[]
    for (pkg,pkgname),es in bypkg.items():
        d=os.path.join('/verif/harness',pkg); os.makedirs(d,exist_ok=True)
        dirs.append(pkg)
        imps=sorted({i for e in es for i in e['imports']})
        src=[f"package {pkgname}\n","// Code generated by /verif/gen/gen_c07.py; DO NOT EDIT.","// C07 — decoders are total: arbitrary input of length n must yield a value or an error.\n"]
        if imps:
            src.append("import (\n"+"\n".join(f'\t"{i}"' for i in imps)+"\n)\n")
        for e in es:
            inp = 'vString' if e.get('text') else 'vBytes'
            src.append(f"func H_C07_{e['name']}() {{\n\tdata := {inp}(\"data\", vParam(\"n\"))\n\t{e['body']}\n\tvCover(\"end\")\n}}\n")
            g={"pkg":pkg,"harness":"H_C07_"+e['name'],"grid":{"quick":{"n":e['q']},"thorough":{"n":e['t']}},
               "alloc_factor":16,"alloc_base":4096,"input_len_param":"n","bounds":"arbitrary byte strings of each length n in the grid"}
            ex=dict(e['extra'])
            for k,v in ex.pop('grid_extra',{}).items():
                g['grid']['quick'][k]=v; g['grid']['thorough'][k]=v
            g.update(ex)
            groups.append(g)
        open(os.path.join(d,'c07_gen.go'),'w').write("\n".join(src))
    return dirs,groups

def derive_boundaries(groups):
    """Derive bounds from the code: every integer constant K that the package compares with a len(...) contributes the
    input lengths K-1, K, K+1 to the quick grid (within the thorough range), so that each length threshold of the decoders
    is crossed in both directions."""
    import re, glob
    pats=[re.compile(r'len\(\w+(?:\.\w+)*\)\s*(?:<|<=|>|>=|==|!=)\s*(\d+)'),re.compile(r'(\d+)\s*(?:<|<=|>|>=|==|!=)\s*len\('),
          re.compile(r'\+\s*(\d+)\s*(?:>|>=)\s*len\('),re.compile(r'len\(\w+(?:\.\w+)*\)\s*<\s*\w+\s*\+\s*(\d+)')]
    def expand(spec):
        out=set()
        for x in spec:
            if '..' in x:
                a,b=x.split('..'); out|=set(range(int(a),int(b)+1))
            else: out.add(int(x))
        return out
    skip=('H_C07_Command','H_C07_DecodeMessage_counts','H_C07_FromFormat','H_C07_FromString','H_C07_Message')
    for g in groups:
        if g.get('input_len_param')!='n' or g['harness'].startswith(skip): continue
        consts=set()
        for f in glob.glob('/repo/'+g['pkg']+'/*.go'):
            if f.endswith('_test.go'): continue
            src=open(f).read()
            for p in pats:
                consts|={int(m) for m in p.findall(src)}
        q=expand(g['grid']['quick']['n']); t=expand(g['grid']['thorough']['n'])
        add=sorted({v for k in consts for v in (k-1,k,k+1) if 0<=v<=max(t)}-q)
        if add:
            g['grid']['quick']['n']=g['grid']['quick']['n']+[str(v) for v in add]
            g['bounds']=g.get('bounds','')+' (+ lengths around every constant the package compares with len(): '+','.join(map(str,add))+')'

# thorough bounds that run to completion (measured on the unchanged tree: 16 cores, 200 s per instance); larger inputs
# hit the instance deadline through path explosion and are outside the claim
THOROUGH_CAP={'H_C07_DecodeDomainName':['0..10'],'H_C07_DecodeMessage':['0..13'],'H_C07_DecodeMessage_counts':['14','15'],
  'H_C07_DecodeResourceRecord':['0..18'],'H_C07_DecodeUTF16LE':['0..9'],'H_C07_GPPPDecryptBytes':['0..15','17'],
  'H_C07_KeyCredential_FromBytes':['0..15'],'H_C07_KeyCredential_FromBytes_reused':['0..14'],'H_C07_NBTNSPacket_shaped':['0..17']}

if __name__=='__main__':
    dirs,groups=emit()
    derive_boundaries(groups)
    extra=json.load(open('/verif/gen/c07_extra.json')) if os.path.exists('/verif/gen/c07_extra.json') else {"harness_dirs":[],"groups":[]}
    for d in extra["harness_dirs"]:
        if d not in dirs: dirs.append(d)
    spec={"property":"C07","harness_dirs":dirs,"groups":groups+extra["groups"],
      "assumptions":["input is an arbitrary byte string / text (every byte symbolic, no validity assumption) of every length in the grid",
                     "allocation bound checked at every make/append growth: size <= 16*len(input)+4096 bytes"],
      "outside":["inputs longer than the stated per-decoder bound","decoders behind encoding/asn1, crypto/x509, math/big (reflection / big-number stdlib)"]}
    for g in spec['groups']:
        if g['harness'] in THOROUGH_CAP:
            g['grid']['thorough']['n']=THOROUGH_CAP[g['harness']]
        g.setdefault('instance_sec',{}).setdefault('thorough',600 if g['harness']=='H_C07_DecodeMessage_counts' else 300)
    json.dump(spec,open('/verif/props/C07.json','w'),indent=1)
    print(len(groups)+len(extra["groups"]),'groups in',len(dirs),'packages')
