#!/usr/bin/env python3
"""Copies the shared reference code into the harness packages that need it (package clause rewritten)."""
import re
src=open('/verif/harness/_shared/ref_hash.go.txt').read()
for d,pkg,skipmd4 in [('utils/encoding/utf16','utf16',False),('crypto/nt','nt',False),('crypto/dcc','dcc',False),('crypto/dcc2','dcc2',False),('crypto/ntlmv1','ntlmv1',False),('crypto/ntlmv2','ntlmv2',False),('network/smb/smb_v10/spnego/ntlm','ntlm',False)]:
    import os
    os.makedirs('/verif/harness/'+d,exist_ok=True)
    open(f'/verif/harness/{d}/ref_hash.go','w').write(src.replace('package PKG','package '+pkg,1))
