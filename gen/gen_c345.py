#!/usr/bin/env python3
"""Regenerates the per-structure groups of props/C03.json, C04.json, C05.json from gen/cmdlist.txt
(the list printed by engine/cmd/gencmds).  Hand-written groups (harness not starting with H_CMD_) are kept."""
import json
names=[l.strip() for l in open('/verif/gen/cmdlist.txt') if l.strip() and not l[0].isdigit()]
grids={'C03':{'quick':{'len':['0','2']},'thorough':{'len':['0','1','3']}},
       'C04':{'quick':{'len':['0','2']},'thorough':{'len':['0','1','2','3','4']}},
       'C05':{'quick':{'len':['1']},'thorough':{'len':['0','3']}}}
# per-structure overrides: NegotiateResponse carries two NUL-terminated UTF-16 names, whose interesting inputs need >= 2 code units
override={('C04','NegotiateResponse'):{'quick':{'len':['0','2','4']},'thorough':{'len':['0','1','2','3','4','6']}},
          ('C05','NegotiateResponse'):{'quick':{'len':['1','4']},'thorough':{'len':['0','3','6']}},
          # TransactionRequest carries a word array counted by a UCHAR: sizes on both sides of 128
          ('C04','TransactionRequest'):{'quick':{'len':['0','2','128']},'thorough':{'len':['0','1','2','3','4','127','128','129','200']}}}
for p in ('C03','C04','C05'):
    fn='/verif/props/%s.json'%p
    d=json.load(open(fn))
    keep=[g for g in d['groups'] if not g['harness'].startswith('H_CMD_')]
    gen=[{'pkg':'network/smb/smb_v10/message/commands','harness':'H_CMD_'+n,'check_prefix':[p+'/'],
          'lossy_fmt':True,'no_cosim':True,'grid':override.get((p,n),grids[p])} for n in names]
    d['groups']=gen+keep if p!='C03' else keep[:0]+gen+keep
    json.dump(d,open(fn,'w'),indent=1)
    print(p,len(d['groups']))
